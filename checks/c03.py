"""C03 — timestamps <-> epoch seconds (ObsTime.readUnixTime / toAbsTime / comparisons / addX)."""
import sys
import datetime
import z3
from symx.runner import Check
from symx import core
from symx.core import zterm, SInt, SReal

OT = 'tracklib.core.obs_time'
EPOCH = datetime.datetime(1970, 1, 1)


def year_start(y):
    return int((datetime.datetime(y, 1, 1) - EPOCH).total_seconds())


def days_from_civil(y, m, d):
    """closed-form proleptic Gregorian day number (era / year-of-era / day-of-year), as z3 Int terms;
    independent of any loop over years or months"""
    y2 = z3.If(m <= 2, y - 1, y)
    era = z3.If(y2 >= 0, y2, y2 - 399) / 400
    yoe = y2 - era * 400
    mp = z3.If(m > 2, m - 3, m + 9)
    doy = (153 * mp + 2) / 5 + d - 1
    doe = yoe * 365 + yoe / 4 - yoe / 100 + doy
    return era * 146097 + doe - 719468


def leap(y):
    return z3.And(y % 4 == 0, z3.Or(y % 100 != 0, y % 400 == 0))


def dim(y, mo):
    return z3.If(z3.Or(mo == 4, mo == 6, mo == 9, mo == 11), 30, z3.If(mo == 2, z3.If(leap(y), 29, 28), 31))


def wellformed(y, mo, d, h, mi, se, ms):
    return z3.And(mo >= 1, mo <= 12, d >= 1, d <= dim(y, mo), h >= 0, h <= 23, mi >= 0, mi <= 59,
                  se >= 0, se <= 59, ms >= 0, ms <= 999)


def closed_form_seconds(y, mo, d, h, mi, se):
    return days_from_civil(y, mo, d) * 86400 + h * 3600 + mi * 60 + se


def poison():
    """calls that are refused with an exception on the unchanged tree (fields of another kind than int); their only legitimate effect is the exception"""
    from tracklib.core.obs_time import ObsTime
    for args in ((2020.0, 3.0, 1, 0, 0, 0), (2024, 2.0, 29, 12, 0, 0), ('2020', 1, 1, 0, 0, 0)):
        for call in ('toAbsTime', 'addSec', 'addDay'):
            try:
                t = ObsTime(*args)
                getattr(t, call)() if call == 'toAbsTime' else getattr(t, call)(1)
            except Exception:
                pass


def fields(t):
    return [t.year, t.month, t.day, t.hour, t.min, t.sec, t.ms]


def zfields(t):
    return [zterm(f) for f in fields(t)]


def sym_time(eng, pfx, ylo, yhi):
    from tracklib.core.obs_time import ObsTime
    y = eng.int(pfx + 'year', ylo, yhi)
    mo = eng.int(pfx + 'month', 1, 12)
    d = eng.int(pfx + 'day', 1, 31)
    h = eng.int(pfx + 'hour', 0, 23)
    mi = eng.int(pfx + 'min', 0, 59)
    se = eng.int(pfx + 'sec', 0, 59)
    ms = eng.int(pfx + 'ms', 0, 999)
    eng.assume(d.z <= dim(y.z, mo.z))
    return ObsTime(y, mo, d, h, mi, se, ms)


class C03(Check):
    id = 'C03'
    crosshair = ['c03_compare_orders_like_seconds']      # thorough tier: the same property as a PEP-316 contract analysed by CrossHair (xh/contracts.py)
    title = 'Timestamps convert to and from epoch seconds without drifting or deforming'
    functions = ['ObsTime.readUnixTime', 'ObsTime.toAbsTime', 'ObsTime.__eq__/__lt__/__gt__/__le__/__ge__',
                 'ObsTime.addSec/addMin/addHour/addDay', 'ObsTime.isLeapYear']
    stubs = ['obs_time.int/float rebound to lifted classes: int(real) = truncation toward zero as an If/ToInt term']
    assumptions = ['instants are integer milliseconds: t = s + ms/1000 with integer s and 0 <= ms <= 999',
                   'timestamps given as fields are well-formed (the documented domain of toAbsTime)']
    outside = ['non-integer milliseconds and the float truncation of x*1000', 'years beyond the stated range',
               'time zones, leap seconds (excluded by the library)']
    budget = {'quick': 150, 'thorough': 1500}

    def bounds(self, tier):
        ymax = 2099 if tier == 'quick' else 2400
        return dict(years=[1970, ymax], unrollings='year loop explored to %d iterations, month loop 12' % (ymax - 1970 + 1),
                    read_jobs='one job per calendar year, s symbolic over the whole year, ms symbolic 0..999',
                    compare='two fully symbolic well-formed timestamps, years 1970..%d' % ymax,
                    add='offsets n*unit with |n*unit| <= 40 days around symbolic well-formed timestamps of selected years')

    def jobs(self, tier, seed):
        ymax = 2099 if tier == 'quick' else 2400
        js = []
        for y in range(1970, ymax + 1):
            js.append(dict(kind='read', y0=y, y1=y + 1))
        step = 1
        for y in range(1970, ymax + 1, step):
            js.append(dict(kind='abs', y0=y, y1=y))
        for op in ('lt', 'gt', 'eq', 'le', 'ge', 'ne'):
            js.append(dict(kind='cmp', op=op, ymax=ymax))
        addyears = [1970, 1971, 1972, 1999, 2000, 2001, 2038, 2096] if tier == 'quick' else \
            [1970, 1971, 1972, 1973, 1999, 2000, 2001, 2038, 2096, 2099, 2100, 2101, 2200, 2300, 2399]
        for y in addyears:
            for unit in ('Sec', 'Min', 'Hour', 'Day'):
                js.append(dict(kind='add', unit=unit, y=y, ymax=ymax))
        # aliasing / leftover-state probes: results are fresh objects (editing one does not change a later conversion of the same instant);
        # a conversion refused with an exception (non-integer year / month fields) leaves the next conversions unaffected
        for y in ([1999, 2020, 2021] if tier == 'quick' else [1970, 1999, 2000, 2020, 2021, 2024, 2100]):
            js.append(dict(kind='alias', y0=y, y1=y + 1))
            js.append(dict(kind='read', y0=y, y1=y + 1, poison=True))
            js.append(dict(kind='abs', y0=y, y1=y, poison=True))
        js.sort(key=lambda j: 0 if (j['kind'] == 'alias' or j.get('poison')) else 1)
        return js

    def patches(self, job):
        return [(OT, 'int', core.LInt), (OT, 'float', core.LFloat)]

    # ------------------------------------------------------------------
    def path(self, ctx, job):
        from tracklib.core.obs_time import ObsTime
        eng = ctx.eng
        kind = job['kind']
        if job.get('poison'):
            poison()
        if kind == 'alias':
            s = eng.int('s', year_start(job['y0']), year_start(job['y1']) - 1)
            n = eng.int('n', -86400 * 3, 86400 * 3)
            eng.assume(s.z + n.z >= 0)
            try:
                t1 = ObsTime.readUnixTime(s)
                f1 = zfields(t1)
                r1 = t1.addSec(n)
                t1.hour, t1.min, t1.sec, t1.day = 0, 0, 0, 1            # the caller truncates the first result ...
                r1.year, r1.month = 1999, 1
                t2 = ObsTime.readUnixTime(s)                                # ... and converts the same instant again
                r2 = t2.addSec(n)
            except Exception as e:
                ctx.fail('conversion raised %s' % type(e).__name__)
                return
            ctx.reach()
            ctx.observe(fields=fields(t2)[:6])
            if t2 is t1 or r2 is r1:
                ctx.fail('two conversions of the same instant return the same object (editing one result changes the other)')
                return
            f2, g2 = zfields(t2), zfields(r2)
            if not ctx.prove(z3.And(wellformed(*f2), closed_form_seconds(*f2[:6]) == s.z, z3.And([a == b for a, b in zip(f1, f2)])),
                             'a second conversion of the same instant is unaffected by edits of the first result'):
                return
            ctx.prove(z3.And(wellformed(*g2), closed_form_seconds(*g2[:6]) == s.z + n.z), 'addSec on a fresh conversion is unaffected by edits of an earlier result')
            return
        if kind == 'read':
            s = eng.int('s', year_start(job['y0']), year_start(job['y1']) - 1)
            ms = eng.int('ms', 0, 999)
            t_in = s + ms / 1000
            try:
                t = ObsTime.readUnixTime(t_in)
            except Exception as e:
                ctx.fail('readUnixTime raised %s' % type(e).__name__)
                return
            y, mo, d, h, mi, se, mss = zfields(t)
            ctx.observe(fields=fields(t)[:6])
            ctx.reach()
            if not ctx.prove(wellformed(y, mo, d, h, mi, se, mss), 'readUnixTime yields a well-formed calendar date'):
                return
            if not ctx.prove(z3.And(closed_form_seconds(y, mo, d, h, mi, se) == s.z, mss == ms.z),
                             'readUnixTime agrees with the proleptic Gregorian calendar'):
                return
            back = t.toAbsTime()
            ctx.prove(core.zreal(back) == core.zreal(t_in), 'toAbsTime(readUnixTime(t)) == t')
        elif kind == 'abs':
            t = sym_time(eng, '', job['y0'], job['y1'])
            y, mo, d, h, mi, se, mss = zfields(t)
            try:
                a = t.toAbsTime()
            except Exception as e:
                ctx.fail('toAbsTime raised %s' % type(e).__name__)
                return
            ctx.observe(abs=a)
            ctx.reach()
            if not ctx.prove(core.zreal(a) == z3.ToReal(closed_form_seconds(y, mo, d, h, mi, se)) + z3.ToReal(mss) / 1000,
                             'toAbsTime agrees with the proleptic Gregorian calendar'):
                return
            t2 = ObsTime.readUnixTime(a)
            f2 = zfields(t2)
            ctx.prove(z3.And([p == q for p, q in zip(f2, [y, mo, d, h, mi, se, mss])]),
                      'readUnixTime(toAbsTime(fields)) == fields')
        elif kind == 'cmp':
            a = sym_time(eng, 'a_', 1970, job['ymax'])
            b = sym_time(eng, 'b_', 1970, job['ymax'])
            fa, fb = zfields(a), zfields(b)
            sa = closed_form_seconds(*fa[:6]) * 1000 + fa[6]
            sb = closed_form_seconds(*fb[:6]) * 1000 + fb[6]
            op = job['op']
            import operator
            got = getattr(operator, op)(a, b)
            if isinstance(got, core.SBool):
                got = bool(got)
            want = dict(lt=sa < sb, gt=sa > sb, eq=sa == sb, le=sa <= sb, ge=sa >= sb, ne=sa != sb)[op]
            ctx.observe(result=got)
            ctx.reach()
            ctx.prove(want if got else z3.Not(want), 'a %s b orders timestamps as their epoch milliseconds do' % op)
        elif kind == 'add':
            unit = dict(Sec=1, Min=60, Hour=3600, Day=86400)[job['unit']]
            t = sym_time(eng, '', job['y'], job['y'])
            lim = (40 * 86400) // unit
            n = eng.int('n', -lim, lim)
            f = zfields(t)
            base_ms = closed_form_seconds(*f[:6]) * 1000 + f[6]
            # keep the result inside the claimed range
            eng.assume(base_ms + n.z * unit * 1000 >= 0)
            eng.assume(base_ms + n.z * unit * 1000 < year_start(job['ymax'] + 1) * 1000)
            try:
                r = getattr(t, 'add' + job['unit'])(n)
            except Exception as e:
                ctx.fail('add%s raised %s' % (job['unit'], type(e).__name__))
                return
            fr = zfields(r)
            ctx.observe(fields=fields(r)[:6])
            ctx.reach()
            if not ctx.prove(wellformed(*fr), 'add%s yields a well-formed date' % job['unit']):
                return
            ctx.prove(closed_form_seconds(*fr[:6]) * 1000 + fr[6] == base_ms + n.z * unit * 1000,
                      'add%s moves the instant by exactly n units' % job['unit'])

    # ------------------------------------------------------------------
    def concrete(self, job, inp):
        from tracklib.core.obs_time import ObsTime
        kind = job['kind']

        def dt_of(prefix=''):
            return datetime.datetime(inp[prefix + 'year'], inp[prefix + 'month'], inp[prefix + 'day'], inp[prefix + 'hour'],
                                     inp[prefix + 'min'], inp[prefix + 'sec'], inp[prefix + 'ms'] * 1000)

        def check_fields(t, want_dt, what):
            fl = [t.year, t.month, t.day, t.hour, t.min, t.sec, t.ms]
            flo = fl[:6]   # ms is compared with the 1 ms tolerance the property grants (float truncation of x*1000)
            try:
                got = datetime.datetime(t.year, t.month, t.day, t.hour, t.min, t.sec, int(t.ms) * 1000)
            except Exception as e:
                return dict(violation='%s: malformed date %s (%s)' % (what, fl, e), outputs=dict(fields=flo))
            if not (0 <= t.ms <= 999) or abs((got - want_dt).total_seconds()) > 0.001 + 1e-6:
                return dict(violation='%s: got %s, expected %s' % (what, fl, want_dt.isoformat()), outputs=dict(fields=flo))
            return dict(violation=None, outputs=dict(fields=flo))

        if job.get('poison'):
            poison()
        if kind == 'alias':
            s, n = int(inp['s']), int(inp['n'])
            t1 = ObsTime.readUnixTime(s)
            r1 = t1.addSec(n)
            t1.hour, t1.min, t1.sec, t1.day = 0, 0, 0, 1
            r1.year, r1.month = 1999, 1
            t2 = ObsTime.readUnixTime(s)
            r2 = t2.addSec(n)
            if t2 is t1 or r2 is r1:
                return dict(violation='readUnixTime(%d) / addSec(%d) called twice return the same object' % (s, n), outputs={})
            r = check_fields(t2, EPOCH + datetime.timedelta(seconds=s), 'readUnixTime(%d) after the first result was edited' % s)
            if r['violation']:
                return r
            r2c = check_fields(r2, EPOCH + datetime.timedelta(seconds=s + n), 'readUnixTime(%d).addSec(%d) after the first result was edited' % (s, n))
            return dict(violation=r2c['violation'], outputs=r['outputs'])
        if kind == 'read':
            s, ms = inp['s'], inp['ms']
            x = s + ms / 1000
            want = EPOCH + datetime.timedelta(seconds=s, milliseconds=ms)
            try:
                t = ObsTime.readUnixTime(x)
            except Exception as e:
                return dict(violation='readUnixTime(%r) raised %s: %s' % (x, type(e).__name__, e))
            r = check_fields(t, want, 'readUnixTime(%r)' % x)
            if r['violation']:
                return r
            back = t.toAbsTime()
            if abs(back - x) > 0.001 + 1e-6:
                return dict(violation='toAbsTime(readUnixTime(%r)) = %r' % (x, back), outputs=r['outputs'])
            if ms == 0 and back != x:
                return dict(violation='whole-second timestamp %r does not round-trip exactly: %r' % (x, back), outputs=r['outputs'])
            return r
        if kind == 'abs':
            t = ObsTime(inp['year'], inp['month'], inp['day'], inp['hour'], inp['min'], inp['sec'], inp['ms'])
            a = t.toAbsTime()
            want = (dt_of() - EPOCH).total_seconds()
            if abs(a - want) > 1e-6:
                return dict(violation='toAbsTime(%s) = %r, proleptic Gregorian says %r' % (inp, a, want), outputs=dict(abs=a))
            t2 = ObsTime.readUnixTime(a)
            r = check_fields(t2, dt_of(), 'readUnixTime(toAbsTime(fields))')
            r['outputs'] = dict(abs=a)
            if not r['violation'] and inp['ms'] == 0 and [t2.year, t2.month, t2.day, t2.hour, t2.min, t2.sec, t2.ms] != \
                    [inp['year'], inp['month'], inp['day'], inp['hour'], inp['min'], inp['sec'], 0]:
                r['violation'] = 'whole-second timestamp does not round-trip exactly'
            return r
        if kind == 'cmp':
            import operator
            a = ObsTime(*[inp['a_' + k] for k in ('year', 'month', 'day', 'hour', 'min', 'sec', 'ms')])
            b = ObsTime(*[inp['b_' + k] for k in ('year', 'month', 'day', 'hour', 'min', 'sec', 'ms')])
            got = getattr(operator, job['op'])(a, b)
            want = getattr(operator, job['op'])(dt_of('a_'), dt_of('b_'))
            return dict(violation=None if bool(got) == want else 'a %s b = %r but the instants compare %r' % (job['op'], got, want),
                        outputs=dict(result=bool(got)))
        if kind == 'add':
            unit = dict(Sec=1, Min=60, Hour=3600, Day=86400)[job['unit']]
            t = ObsTime(inp['year'], inp['month'], inp['day'], inp['hour'], inp['min'], inp['sec'], inp['ms'])
            try:
                r = getattr(t, 'add' + job['unit'])(inp['n'])
            except Exception as e:
                return dict(violation='add%s raised %s' % (job['unit'], e))
            want = dt_of() + datetime.timedelta(seconds=inp['n'] * unit)
            return check_fields(r, want, 'add%s(%d)' % (job['unit'], inp['n']))


CHECK = C03()
