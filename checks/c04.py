"""C04 — sequence operations on a track select exactly the designated observations."""
import sys
import z3
from symx.runner import Check
from symx import core
from symx.lifts import std_patches

TRK = 'tracklib.core.track'


def key(o):
    """z3 term: milliseconds in the day of an observation's timestamp (date, hour, minute are concrete and equal)"""
    t = o.timestamp
    return core.zterm(t.sec) * 1000 + core.zterm(t.ms)


def ckey(o):
    t = o.timestamp
    return int(t.sec) * 1000 + int(t.ms)


def build(n, secs, mss, feats=True):
    """track of n observations tagged by E = index and feature f = 100 + index"""
    from tracklib.core import Track, Obs, ENUCoords, ObsTime
    tr = Track([Obs(ENUCoords(float(i), float(-i), 0.5 * i), ObsTime(2020, 2, 29, 23, 59, secs[i], mss[i])) for i in range(n)], 7, 3)
    if feats and n > 0:
        tr.createAnalyticalFeature('f', [100.0 + i for i in range(n)])
    return tr


def tags(track):
    """identity tags of the observations of a track: (E, f) pairs read through the public API"""
    out = []
    for i in range(track.size()):
        o = track.getObs(i)
        out.append(int(o.position.getX()))
    return out


def frame_ok(res, src, before, want, what):
    """concrete structural oracle shared by the symbolic harness and the replay.
    res: returned track; src: source track; before: its observation list before the call; want: designated indices"""
    if res is None:
        return '%s returned None' % what
    now = [src.getObs(i) for i in range(src.size())]
    if len(now) != len(before) or any(a is not b for a, b in zip(now, before)):
        return '%s modified the source track' % what
    got = tags(res)
    if got != list(want):
        return '%s returned observations %r, designated %r' % (what, got, list(want))
    for i in range(res.size()):
        o = res.getObs(i)
        k = got[i]
        b = before[k]
        if o.position.getY() != b.position.getY() or o.position.getZ() != b.position.getZ():
            return '%s: an observation lost its own position' % what
        if o.timestamp is not b.timestamp and not (ckey_sym_equal(o.timestamp, b.timestamp)):
            return '%s: an observation lost its own timestamp' % what
    if 'f' in src.getListAnalyticalFeatures():
        if res.getListAnalyticalFeatures() != ['f']:
            return '%s: feature table not carried over (%r)' % (what, res.getListAnalyticalFeatures())
        for i in range(res.size()):
            if res.getObsAnalyticalFeature('f', i) != 100.0 + got[i]:
                return '%s: an observation lost its own feature value' % what
    return None


def ckey_sym_equal(t1, t2):
    # copies made by deepcopy keep the very same (immutable) field values
    return all(getattr(t1, a) is getattr(t2, a) or (not core.is_sym(getattr(t1, a)) and getattr(t1, a) == getattr(t2, a))
               for a in ('year', 'month', 'day', 'hour', 'min', 'sec', 'ms'))


class C04(Check):
    id = 'C04'
    crosshair = ['c04_insert_keeps_sorted', 'c04_trims_select_designated']      # thorough tier: the same property as a PEP-316 contract analysed by CrossHair (xh/contracts.py)
    title = 'Sequence operations on a track select exactly the designated observations'
    functions = ['Track.sort', 'Track.insertObs', 'Track.__getInsertionIndex', 'Track.extract', 'Track.extractSpanTime', 'Track.__add__', 'Track.__mod__',
                 'Track.__gt__', 'Track.__lt__', 'Track.removeObsList', 'ObsTime.__lt__/__gt__/__le__']
    stubs = ['track.int / track.float rebound to lifted classes (isinstance(x, int) recognises a symbolic integer; int(float) of constants is the builtin)',
             'np.argsort runs for real on the object array of ObsTime (comparisons fork)']
    assumptions = ['timestamps: one concrete day/hour/minute, symbolic integer second 0..59 and millisecond 0..999 (ms symbolic for n <= 3, else 0), ties allowed',
                   'integer arguments are symbolic and case split by the solver inside the documented ranges: extract 0 <= i <= n, -1 <= j <= n-1; '
                   '> n and < n with 0 <= n <= size+1; % n with 1 <= n <= size+1; removal of a duplicate-free index list',
                   'insertion precondition: the track is time-sorted (non-decreasing)']
    outside = ['sortRadix', 'negative steps / negative trim counts', 'removal by timestamp list', 'sizes beyond the bound', '__truediv__ (even split)']
    budget = {'quick': 150, 'thorough': 1800}

    def bounds(self, tier):
        q = tier == 'quick'
        return dict(sort='n <= %d (one path per weak ordering of the instants, through np.argsort)' % (4 if q else 6),
                    insert='track sizes 0..%d (all of 1, 2, 2^k, 2^k +- 1), symbolic sorted instants and symbolic new instant' % (9 if q else 17),
                    slicing='n <= %d for extract / span / + / %% / > / < / removal; patterns of length 1..3' % (4 if q else 6))

    def jobs(self, tier, seed):
        q = tier == 'quick'
        js = []
        for n in range(0, (4 if q else 6) + 1):
            js.append(dict(kind='sort', n=n))
        for n in range(0, (9 if q else 17) + 1):
            js.append(dict(kind='insert', n=n))
        nmax = 4 if q else 6
        for n in range(0, nmax + 1):
            js.append(dict(kind='extract', n=n))
            js.append(dict(kind='gt', n=n))
            js.append(dict(kind='lt', n=n))
            js.append(dict(kind='modn', n=n))
            for L in (1, 2, 3):
                js.append(dict(kind='modpat', n=n, L=L))
            for k in range(0, min(n, 3) + 1):
                js.append(dict(kind='remove', n=n, k=k))
            for m in range(0, 3):
                js.append(dict(kind='add', n=n, m=m, same=True))
            js.append(dict(kind='add', n=n, m=2, same=False))
            if n <= (3 if q else 4):
                js.append(dict(kind='span', n=n))
        # scale probes: long tracks with fixed instants, symbolic arguments
        for n in ([16, 17, 33] if q else [15, 16, 17, 31, 32, 33, 59]):
            js.append(dict(kind='insert', n=n, fixed=True))
            for order in ('up', 'down', 'ties'):
                if n <= 17 or not q:
                    js.append(dict(kind='span', n=n, fixed=order))
            for kind in ('extract', 'gt', 'lt', 'modn'):
                if kind != 'extract' or n <= 16 or not q:
                    js.append(dict(kind=kind, n=n))
            js.append(dict(kind='modpat', n=n, L=3))
            js.append(dict(kind='remove', n=n, k=2))
            js.append(dict(kind='add', n=n, m=n, same=True))
        for n, m in ((1, 1), (2, 3), (3, 2)):
            js.append(dict(kind='add', n=n, m=m, same='perm'))
        for pk in ('bool', 'npbool', 'int', 'npint', 'float'):      # value-kind probes
            for n in (3, 4):
                js.append(dict(kind='modpat', n=n, L=2, pk=pk))
                js.append(dict(kind='modpat', n=n, L=3, pk=pk))
        js.sort(key=lambda j: -(j['n'] ** 2 if j['kind'] in ('sort', 'span') and not j.get('fixed') else j['n']))
        return js

    def patches(self, job):
        return std_patches([TRK], math=False, ints=True)

    # ---- input construction (symbolic when eng is given, else from the replay dict)
    def _times(self, eng, inp, n, prefix='t', msym=None):
        msym = (n <= 3) if msym is None else msym
        secs, mss = [], []
        for i in range(n):
            if inp is None:
                secs.append(eng.int('%ss%d' % (prefix, i), 0, 59))
                mss.append(eng.int('%sm%d' % (prefix, i), 0, 999) if msym else 0)
            else:
                secs.append(int(inp['%ss%d' % (prefix, i)]))
                mss.append(int(inp['%sm%d' % (prefix, i)]) if msym else 0)
        return secs, mss

    def _arg(self, eng, inp, name, lo, hi):
        return eng.int(name, lo, hi) if inp is None else int(inp[name])

    def _exec(self, job, eng, inp, ctx=None):
        """runs the operation; returns (violation message | None, outputs dict).  Used for both the symbolic path and the replay:
        every comparison of a symbolic value forks, so on a path all tested relations are decided."""
        from tracklib.core import Obs, ENUCoords, ObsTime
        kind, n = job['kind'], job['n']
        sym = inp is None

        def holds(c):      # a relation on the instants: proved on the path (symbolic) or evaluated (replay)
            if sym:
                return ctx.prove(c, job['kind'] + ': time relation', chain=True)
            return bool(c)

        if kind == 'sort':
            secs, mss = self._times(eng, inp, n)
            tr = build(n, secs, mss)
            before = [tr.getObs(i) for i in range(n)]
            tr.sort()
            after = [tr.getObs(i) for i in range(tr.size())]
            if sorted(id(o) for o in after) != sorted(id(o) for o in before):
                return 'sort did not return the same observations (a permutation of the same objects)', {}
            if sym:
                ctx.reach()
                ks = [key(o) for o in after]
                ok = ctx.prove(z3.And([a <= b for a, b in zip(ks, ks[1:])]) if n > 1 else True, 'sort yields non-decreasing time order')
                if not ok:
                    return None, {}
            else:
                ks = [ckey(o) for o in after]
                if any(a > b for a, b in zip(ks, ks[1:])):
                    return 'after sort the instants are %r (indices %r)' % (ks, tags(tr)), {}
            for o in after:
                k = int(o.position.getX())
                if o is not before[k] or tr.getObsAnalyticalFeature('f', after.index(o)) != 100.0 + k:
                    return 'sort: an observation lost its own feature value', {}
            return None, dict(order=tags(tr)) if not sym else {}

        if kind == 'insert':
            if job.get('fixed'):
                secs, mss = [(i * 59) // n for i in range(n)], [500 * (i % 2) for i in range(n)]      # sorted, some seconds shared by two observations
            else:
                secs, mss = self._times(eng, inp, n, msym=(n <= 2))
            if sym and n > 1 and not job.get('fixed'):
                t0 = build(n, secs, mss, feats=False)
                ks = [key(t0.getObs(i)) for i in range(n)]
                eng.assume(z3.And([a <= b for a, b in zip(ks, ks[1:])]))
            tr = build(n, secs, mss, feats=False)
            ns = self._arg(eng, inp, 'new_s', 0, 59)
            nm = self._arg(eng, inp, 'new_m', 0, 999) if (n <= 2 or job.get('fixed')) else 0
            new = Obs(ENUCoords(-1.0, 0.0, 0.0), ObsTime(2020, 2, 29, 23, 59, ns, nm))
            before = [tr.getObs(i) for i in range(n)]
            tr.insertObs(new)
            after = [tr.getObs(i) for i in range(tr.size())]
            if len(after) != n + 1 or sum(1 for o in after if o is new) != 1:
                return 'insertObs did not add the observation exactly once (size %d -> %d)' % (n, len(after)), {}
            rest = [o for o in after if o is not new]
            if any(a is not b for a, b in zip(rest, before)):
                return 'insertObs disturbed the other observations', {}
            pos = after.index(new)
            if sym:
                ctx.reach()
                ks = [key(o) for o in after]
                ctx.prove(z3.And([a <= b for a, b in zip(ks, ks[1:])]) if n >= 1 else True, 'chronological insertion leaves the track time-sorted')
                return None, dict(pos=pos)
            ks = [ckey(o) for o in after]
            if any(a > b for a, b in zip(ks, ks[1:])):
                return 'after insertion at index %d the instants are %r' % (pos, ks), dict(pos=pos)
            return None, dict(pos=pos)

        # ---- slicing family: concrete distinct instants are irrelevant; integer arguments symbolic
        secs, mss = list(range(n)), [0] * n
        if kind == 'span' and job.get('fixed'):
            secs, mss = [(i * 59) // n for i in range(n)], [500 * (i % 2) for i in range(n)]
            if job['fixed'] == 'down':
                secs, mss = secs[::-1], mss[::-1]
            elif job['fixed'] == 'ties':
                secs, mss = [2 * (v // 2) for v in secs], [0] * n
        elif kind == 'span':
            secs, mss = self._times(eng, inp, n)
        tr = build(n, secs, mss)
        if kind == 'add' and job['same'] == 'perm':
            tr.createAnalyticalFeature('g', [200.0 + i for i in range(n)])
        before = [tr.getObs(i) for i in range(n)]
        if kind == 'extract':
            i = self._arg(eng, inp, 'i', 0, n)
            j = self._arg(eng, inp, 'j', -1, n - 1)
            res = tr.extract(i, j)
            i, j = int(i), int(j)
            return frame_ok(res, tr, before, range(i, j + 1), 'extract(%d,%d)' % (i, j)), dict(size=res.size())
        if kind == 'gt':
            a = self._arg(eng, inp, 'a', 0, n + 1)
            res = tr > a
            a = int(a)
            return frame_ok(res, tr, before, range(min(a, n), n), '> %d' % a), dict(size=res.size())
        if kind == 'lt':
            a = self._arg(eng, inp, 'a', 0, n + 1)
            res = tr < a
            a = int(a)
            return frame_ok(res, tr, before, range(0, max(0, n - a)), '< %d' % a), dict(size=res.size())
        if kind == 'modn':
            a = self._arg(eng, inp, 'a', 1, n + 1)
            res = tr % a
            a = int(a)
            return frame_ok(res, tr, before, range(0, n, a), '%% %d' % a), dict(size=res.size() if res is not None else -1)
        if kind == 'modpat':
            L = job['L']
            pat = [self._arg(eng, inp, 'b%d' % k, 0, 1) for k in range(L)]
            if job.get('pk'):       # the kind of truth value in the pattern: Python bool, numpy bool, 0/1 integers, numpy integers
                import numpy as np
                conv = {'bool': bool, 'npbool': np.bool_, 'int': int, 'npint': np.int64, 'float': float}[job['pk']]
                pat = [conv(int(b)) for b in pat]
            res = tr % pat
            pat = [int(b) for b in pat]
            return frame_ok(res, tr, before, [i for i in range(n) if pat[i % L]], '%% %r' % pat), dict(size=res.size() if res is not None else -1)
        if kind == 'remove':
            k = job['k']
            idx = [self._arg(eng, inp, 'r%d' % c, 0, n - 1) for c in range(k)]
            if sym and k > 1:
                eng.assume(z3.Distinct([v.z for v in idx]))
            elif not sym and len(set(idx)) != len(idx):
                return None, {}
            arg = list(idx)
            keep = list(arg)
            tr.removeObsList(arg)
            if sorted(int(v) for v in arg) != sorted(int(v) for v in keep):      # (the unchanged code sorts the list in place: allowed; it must still hold the same indices)
                return 'removeObsList emptied or altered the index list it was given', dict(size=tr.size())
            idx = sorted(int(v) for v in idx)
            got = tags(tr)
            want = [i for i in range(n) if i not in idx]
            if got != want:
                return 'removeObsList(%r) leaves observations %r, expected %r' % (idx, got, want), dict(size=tr.size())
            # the same list object is used again on a second track of the same size
            tr2 = build(n, secs, mss)
            tr2.removeObsList(arg)
            if tags(tr2) != want:
                return 'removeObsList with the index list of an earlier call leaves observations %r, expected %r' % (tags(tr2), want), dict(size=tr.size())
            for c, i in enumerate(want):
                if tr.getObs(c) is not before[i] or tr.getObsAnalyticalFeature('f', c) != 100.0 + i:
                    return 'removeObsList: a remaining observation lost its own values', dict(size=tr.size())
            return None, dict(size=tr.size())
        if kind == 'add':
            m = job['m']
            from tracklib.core import Track
            t2 = Track([Obs(ENUCoords(float(n + c), float(-(n + c)), 0.5 * (n + c)), ObsTime(2020, 2, 29, 23, 59, 30 + c, 0)) for c in range(m)])
            if job['same'] == 'perm':
                # same feature names, created in the other order (different column layout)
                t2.createAnalyticalFeature('g', [200.0 + n + c for c in range(m)])
                t2.createAnalyticalFeature('f', [100.0 + n + c for c in range(m)])
                b2 = [t2.getObs(c) for c in range(m)]
                res = tr + t2
                now = [res.getObs(c) for c in range(res.size())]
                if len(now) != n + m or any(a is not b for a, b in zip(now, before + b2)):
                    return '+ did not concatenate the observations in order', {}
                for nm_, base in (('f', 100.0), ('g', 200.0)):
                    if nm_ in res.getListAnalyticalFeatures():
                        for c in range(n + m):
                            if res.getObsAnalyticalFeature(nm_, c) != base + c:
                                return '+ of tracks listing the same features in another order: observation %d reads %s = %r, its own value is %r' % (
                                    c, nm_, res.getObsAnalyticalFeature(nm_, c), base + c), {}
                return None, dict(size=res.size())
            if m > 0:
                t2.createAnalyticalFeature('f' if job['same'] else 'g', [100.0 + n + c for c in range(m)])
            same = job['same'] and n > 0 and m > 0
            b2 = [t2.getObs(c) for c in range(m)]
            res = tr + t2
            now2 = [t2.getObs(c) for c in range(t2.size())]
            if len(now2) != m or any(a is not b for a, b in zip(now2, b2)):
                return '+ modified its right operand', {}
            if not same:
                # different feature tables: documented behaviour is a plain concatenation without feature table
                now = [res.getObs(c) for c in range(res.size())]
                if len(now) != n + m or any(a is not b for a, b in zip(now, before + b2)):
                    return '+ did not concatenate the observations in order', {}
                return None, dict(size=res.size())
            allb = before + b2
            got = tags(res)
            if got != list(range(n + m)) or any(res.getObs(c) is not allb[c] for c in range(n + m)):
                return '+ returned observations %r, expected the %d + %d observations in order' % (got, n, m), {}
            if res.getListAnalyticalFeatures() != ['f'] or any(res.getObsAnalyticalFeature('f', c) != 100.0 + c for c in range(n + m)):
                return '+: feature table not carried over', {}
            now = [tr.getObs(i) for i in range(tr.size())]
            if len(now) != n or any(a is not b for a, b in zip(now, before)):
                return '+ modified its left operand', {}
            return None, dict(size=res.size())
        if kind == 'span':
            s1 = self._arg(eng, inp, 'lo_s', 0, 59)
            m1 = self._arg(eng, inp, 'lo_m', 0, 999) if (n <= 3 or (job.get('fixed') and n <= 17)) else 0
            s2 = self._arg(eng, inp, 'hi_s', 0, 59)
            m2 = self._arg(eng, inp, 'hi_m', 0, 999) if (n <= 3 or (job.get('fixed') and n <= 17)) else 0
            t1 = ObsTime(2020, 2, 29, 23, 59, s1, m1)
            t2 = ObsTime(2020, 2, 29, 23, 59, s2, m2)
            res = tr.extractSpanTime(t1, t2)
            got = tags(res)
            if sym:
                ctx.reach()
                k1 = core.zterm(s1) * 1000 + core.zterm(m1)
                k2 = core.zterm(s2) * 1000 + core.zterm(m2)
                lo = z3.If(k1 <= k2, k1, k2)
                hi = z3.If(k1 <= k2, k2, k1)
                conds = []
                for i in range(n):
                    inside = z3.And(key(before[i]) >= lo, key(before[i]) <= hi)
                    conds.append(inside if i in got else z3.Not(inside))
                if not ctx.prove(z3.And(conds) if conds else True, 'extractSpanTime returns exactly the observations inside the (ordered) span'):
                    return None, {}
                want = got
            else:
                k1, k2 = int(s1) * 1000 + int(m1), int(s2) * 1000 + int(m2)
                lo, hi = min(k1, k2), max(k1, k2)
                want = [i for i in range(n) if lo <= ckey(before[i]) <= hi]
            return frame_ok(res, tr, before, want, 'extractSpanTime'), dict(size=res.size())
        raise ValueError(kind)

    def path(self, ctx, job):
        try:
            v, out = self._exec(job, ctx.eng, None, ctx)
        except (IndexError, ValueError, TypeError, AttributeError, ZeroDivisionError, KeyError) as e:
            if 'SReal' in str(e) or 'SInt' in str(e):
                raise
            ctx.fail('%s raised %s' % (job['kind'], type(e).__name__))
            return
        ctx.reach()
        if out:
            ctx.observe(**out)
        if v:
            import re
            ctx.fail(job['kind'] + ': ' + re.sub(r'[-\d\[\], ()]+', ' ', v.split(' returned observations')[0].split(' leaves observations')[0].split(' (size')[0]).strip())

    def concrete(self, job, inp):
        try:
            v, out = self._exec(job, None, inp)
        except Exception as e:
            return dict(violation='%s raised %s: %s (inputs %r)' % (job['kind'], type(e).__name__, e, inp))
        return dict(violation=v, outputs=out)


CHECK = C04()
