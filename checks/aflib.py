"""Shared pieces for C01 / C02: expression trees of the documented grammar, their rendering, and an independent
oracle that evaluates a *tree* (never a string) with ordinary arithmetic, either on z3 terms or on floats."""
import math
import z3
from symx import core

NAN = float('nan')
UNDEF = 'undef'      # the documented definitions do not fix the value (x/0 with scalar operands, sqrt of a negative, SIGN(0), ...)


def isnan(v):
    return isinstance(v, float) and v != v


# ---------------------------------------------------------------- value algebras

class ZAlg:
    """oracle values: float NaN | UNDEF | z3 real term"""
    sym = True
    undef_seen = False

    def lift(self, v):
        if isnan(v) or v is UNDEF:
            return v
        return core.zreal(v)

    def bad(self, *vs):
        if any(v is UNDEF for v in vs):
            return UNDEF
        if any(isnan(v) for v in vs):
            return NAN
        return None

    def iszero(self, v):
        """python bool: decided on the current path (forks if it is not)"""
        return bool(core.SBool(v == 0))

    def lt(self, a, b):
        return z3.If(a < b, z3.RealVal(1), z3.RealVal(0))

    def neg(self, v):
        return bool(core.SBool(v < 0))

    def ite(self, c, a, b):
        return z3.If(c, a, b)

    def const(self, x):
        return core.zreal(x)

    def sqrt(self, v):
        return core.zreal(core.sym_sqrt(core.SReal(v)))

    def pow(self, v, e):
        r = core.SReal(v) ** e
        return core.zreal(r)

    def vmin(self, vs):
        r = vs[0]
        for v in vs[1:]:
            r = z3.If(v < r, v, r)
        return r

    def vmax(self, vs):
        r = vs[0]
        for v in vs[1:]:
            r = z3.If(v > r, v, r)
        return r

    def lt_c(self, a, b):
        return a < b

    def all_le(self, x, vs):
        return z3.And([x <= y for y in vs])

    def median(self, ts):
        """median as a z3 term: fresh variable constrained by rank conditions (mean of the two middle values for an even count)"""
        n = len(ts)
        m = core.ENG.fresh_real('median')
        cnt_le = lambda a: z3.Sum([z3.If(t <= a, 1, 0) for t in ts])
        cnt_ge = lambda a: z3.Sum([z3.If(t >= a, 1, 0) for t in ts])
        if n % 2 == 1:
            h = (n + 1) // 2
            c = z3.Or([z3.And(m == a, cnt_le(a) >= h, cnt_ge(a) >= h) for a in ts])
        else:
            h = n // 2
            c = z3.Or([z3.And(a <= b, cnt_le(a) >= h, cnt_ge(a) >= h + 1, cnt_le(b) >= h + 1, cnt_ge(b) >= h, 2 * m == a + b)
                       for i, a in enumerate(ts) for j, b in enumerate(ts) if i != j])
        core.ENG.assume(c, check=False)      # defines m uniquely (the median always exists)
        return m

    def all_ge(self, x, vs):
        return z3.And([x >= y for y in vs])


class FAlg:
    """the same oracle on plain floats (used by the concrete replay)"""
    sym = False
    undef_seen = False

    def lift(self, v):
        return v if v is UNDEF else float(v)

    def bad(self, *vs):
        if any(v is UNDEF for v in vs):
            return UNDEF
        if any(isnan(v) for v in vs):
            return NAN
        return None

    def iszero(self, v):
        return v == 0

    def lt(self, a, b):
        # a comparison whose operands agree to within rounding can legitimately come out either way in floating point
        # (the oracle and the code may round intermediate results differently): undefined, never a violation
        if abs(a - b) <= 1e-9 * max(1.0, abs(a), abs(b)):
            self.undef_seen = True
            return UNDEF
        return 1.0 if a < b else 0.0

    def neg(self, v):
        return v < 0

    def ite(self, c, a, b):
        return a if c else b

    def const(self, x):
        return float(x)

    def sqrt(self, v):
        return math.sqrt(v)

    def pow(self, v, e):
        return v ** e

    def vmin(self, vs):
        return min(vs)

    def vmax(self, vs):
        return max(vs)

    def lt_c(self, a, b):
        return a < b

    def _near_tie(self, x, vs):
        if any(x != y and abs(x - y) <= 1e-9 * max(1.0, abs(x), abs(y)) for y in vs):
            self.undef_seen = True      # values that differ only within rounding: the extremal index is not robustly defined

    def all_le(self, x, vs):
        self._near_tie(x, vs)
        return all(x <= y for y in vs)

    def median(self, ts):
        s = sorted(ts)
        n = len(s)
        return s[n // 2] if n % 2 else 0.5 * (s[n // 2 - 1] + s[n // 2])

    def all_ge(self, x, vs):
        self._near_tie(x, vs)
        return all(x >= y for y in vs)


# ---------------------------------------------------------------- trees

PREC = {'<': 1, '>': 1, '+': 2, '-': 2, '*': 3, '/': 3, '^': 4}
POINTWISE = ('ABS', 'DIODE', 'SQRT', 'SIGN')
SERIES = ('D', 'I', 'D2')
AGGREGATES = ('SUM', 'AVG', 'MIN', 'MAX', 'MSE', 'VAR', 'ARGMIN', 'ARGMAX', 'MEDIAN', 'MAD', 'STD', 'RMSE')
FUNCS = POINTWISE + SERIES + AGGREGATES


def render(t, minimal=True):
    """tree -> expression string.  minimal=True writes only the parentheses the usual precedence and left-to-right
    associativity require; minimal=False parenthesises every binary sub-expression."""
    k = t[0]
    if k in ('name', 'num', 'ext'):
        return t[1]
    if k == 'fun':
        return '%s{%s}' % (t[1], render(t[2], minimal))
    if k == 'neg':     # only generated where the grammar documents it: at the start or right after '('
        return '-' + _wrap(t[1], 3, True, minimal)
    if k == 'bin':
        op, l, r = t[1], t[2], t[3]
        p = PREC[op]
        if minimal:
            ls = _wrap(l, p, False, True)
            rs = _wrap(r, p, True, True)
        else:
            ls = '(' + render(l, False) + ')' if l[0] in ('bin', 'neg') else render(l, False)
            rs = '(' + render(r, False) + ')' if r[0] in ('bin', 'neg') else render(r, False)
        return ls + op + rs
    raise ValueError(t)


def _wrap(t, p, right, minimal):
    s = render(t, minimal)
    if t[0] == 'neg':
        return '(' + s + ')'
    if t[0] == 'bin':
        q = PREC[t[1]]
        if q < p or (right and q <= p):
            return '(' + s + ')'
    return s


def depth(t):
    if t[0] in ('name', 'num', 'ext'):
        return 0
    if t[0] in ('fun', 'neg'):
        return 1 + depth(t[-1])
    return 1 + max(depth(t[2]), depth(t[3]))


def leaves(t, acc=None):
    acc = [] if acc is None else acc
    if t[0] in ('name', 'num', 'ext'):
        acc.append(t)
    elif t[0] in ('fun', 'neg'):
        leaves(t[-1], acc)
    else:
        leaves(t[2], acc)
        leaves(t[3], acc)
    return acc


def is_scalar(t):
    """does the evaluator treat this sub-expression as a plain number (literal/external arithmetic only)?"""
    if t[0] in ('num', 'ext'):
        return True
    if t[0] == 'name' or t[0] == 'fun':
        return False
    if t[0] == 'neg':
        return is_scalar(t[1])
    return is_scalar(t[2]) and is_scalar(t[3])


def supported(t):
    """trees inside the claim: '^' only with a literal exponent 2, 3 or 0.5 (AF^AF, k^AF and symbolic exponents are outside)"""
    if t[0] in ('name', 'num', 'ext'):
        return True
    if t[0] in ('fun', 'neg'):
        return supported(t[-1])
    if t[1] == '^':
        if not (t[3][0] == 'num' and t[3][1] in ('2', '3', '0.5')):
            return False
    return supported(t[2]) and supported(t[3])


# ---------------------------------------------------------------- oracle

def evaluate(t, env, n, A):
    """value of the tree at every observation: list of n oracle values.  env: name -> list of n values (already lifted)."""
    k = t[0]
    if k == 'name':
        return list(env[t[1]])
    if k == 'num':
        return [A.const(float(t[1]))] * n
    if k == 'ext':
        return [env['$' + t[1]]] * n
    if k == 'neg':
        return [_arith('-', A.const(0.0), v, A, True, True) for v in evaluate(t[1], env, n, A)]
    if k == 'bin':
        l = evaluate(t[2], env, n, A)
        r = evaluate(t[3], env, n, A)
        ls, rs = is_scalar(t[2]), is_scalar(t[3])
        return [_arith(t[1], a, b, A, ls, rs) for a, b in zip(l, r)]
    if k == 'fun':
        v = evaluate(t[2], env, n, A)
        return _fun(t[1], v, n, A)
    raise ValueError(t)


def _arith(op, a, b, A, a_scalar, b_scalar):
    bad = A.bad(a, b)
    if op in ('<', '>'):
        if bad is UNDEF:
            return UNDEF
        if bad is not None:
            return A.const(0.0)          # comparisons with NaN are false
        return A.lt(a, b) if op == '<' else A.lt(b, a)
    if bad is UNDEF:
        return UNDEF
    if op == '/' and not isnan(b) and A.iszero(b):
        # feature / feature: NaN (Divider documents it by construction); a zero scalar or a scalar numerator is plain x/0: undefined
        if a_scalar or b_scalar:
            A.undef_seen = True
            return UNDEF
        return NAN
    if bad is not None:
        return bad
    if op == '+':
        return a + b
    if op == '-':
        return a - b
    if op == '*':
        return a * b
    if op == '/':
        return a / b
    if op == '^':
        e = b
        raise ValueError('pow handled by caller')
    raise ValueError(op)


def evaluate_pow(base_vals, expo, A):
    out = []
    for v in base_vals:
        bad = A.bad(v)
        if bad is not None:
            out.append(bad)
        elif expo == 0.5:
            out.append(_undef(A) if A.neg(v) else A.sqrt(v))
        else:
            out.append(A.pow(v, int(expo)))
    return out


def _undef(A):
    A.undef_seen = True
    return UNDEF


def _fun(name, v, n, A):
    if name == 'D':
        return [NAN] + [_arith('-', v[i], v[i - 1], A, False, False) for i in range(1, n)]
    if name == 'I':
        out = [A.const(0.0)]
        for i in range(1, n):
            out.append(_arith('+', out[-1], v[i], A, False, False))
        return out
    if name == 'D2':
        out = [NAN] * n
        for i in range(1, n - 1):
            two = _arith('*', A.const(2.0), v[i], A, False, False)
            out[i] = _arith('+', _arith('-', v[i + 1], two, A, False, False), v[i - 1], A, False, False)
        return out
    if name in POINTWISE:
        out = []
        for x in v:
            bad = A.bad(x)
            if bad is not None:
                out.append(_undef(A) if name == 'SIGN' and bad is not UNDEF else bad)
            elif name == 'ABS':
                out.append(A.ite(A.lt_c(x, 0), -x, x))
            elif name == 'DIODE':
                out.append(A.ite(A.lt_c(0, x), x, A.const(0.0)))
            elif name == 'SQRT':
                out.append(_undef(A) if A.neg(x) else A.sqrt(x))
            elif name == 'SIGN':
                out.append(_undef(A) if A.iszero(x) else A.ite(A.lt_c(x, 0), A.const(-1.0), A.const(1.0)))
        return out
    # aggregates skip NaN values; the result is broadcast to every observation
    if any(x is UNDEF for x in v):
        return [UNDEF] * n
    vals = [x for x in v if not isnan(x)]
    if not vals:
        return [A.const(0.0) if name == 'SUM' else _undef(A)] * n
    c = A.const(float(len(vals)))
    s = vals[0]
    for x in vals[1:]:
        s = s + x
    if name == 'SUM':
        r = s
    elif name == 'AVG':
        r = s / c
    elif name == 'MIN':
        r = A.vmin(vals)
    elif name == 'MAX':
        r = A.vmax(vals)
    elif name == 'MSE':
        q = vals[0] * vals[0]
        for x in vals[1:]:
            q = q + x * x
        r = q / c
    elif name == 'VAR':
        m = s / c
        q = (vals[0] - m) * (vals[0] - m)
        for x in vals[1:]:
            q = q + (x - m) * (x - m)
        r = q / c
    elif name in ('STD', 'RMSE'):
        if name == 'RMSE':
            q = vals[0] * vals[0]
            for x in vals[1:]:
                q = q + x * x
            r = A.sqrt(q / c)
        else:
            m = s / c
            q = (vals[0] - m) * (vals[0] - m)
            for x in vals[1:]:
                q = q + (x - m) * (x - m)
            r = A.sqrt(q / c)
    elif name in ('MEDIAN', 'MAD'):
        # documented: median(x) / median(|x|); mean of the two middle values for an even count.  MEDIAN only on NaN-free vectors.
        if name == 'MEDIAN' and len(vals) != len(v):
            return [_undef(A)] * n
        ws = vals if name == 'MEDIAN' else [A.ite(A.lt_c(x, 0), -x, x) for x in vals]
        r = A.median(ws)
    elif name in ('ARGMIN', 'ARGMAX'):
        # documented: the smallest index attaining the extremum (only defined here on NaN-free vectors)
        if len(vals) != len(v):
            return [_undef(A)] * n
        r = A.const(float(len(v) - 1))
        for i in range(len(v) - 2, -1, -1):
            if name == 'ARGMIN':
                best = A.all_le(v[i], v) if hasattr(A, 'all_le') else None
            else:
                best = A.all_ge(v[i], v)
            r = A.ite(best, A.const(float(i)), r)
    else:
        raise ValueError(name)
    return [r] * n


def evaluate_full(t, env, n, A):
    """evaluate with '^' support (literal exponents)"""
    if t[0] == 'bin' and t[1] == '^':
        return evaluate_pow(evaluate_full(t[2], env, n, A), float(t[3][1]), A)
    if t[0] == 'bin':
        l = evaluate_full(t[2], env, n, A)
        r = evaluate_full(t[3], env, n, A)
        ls, rs = is_scalar(t[2]), is_scalar(t[3])
        return [_arith(t[1], a, b, A, ls, rs) for a, b in zip(l, r)]
    if t[0] == 'neg':
        return [_arith('-', A.const(0.0), v, A, True, True) for v in evaluate_full(t[1], env, n, A)]
    if t[0] == 'fun':
        return _fun(t[1], evaluate_full(t[2], env, n, A), n, A)
    return evaluate(t, env, n, A)


# ---------------------------------------------------------------- tracks

TS = [64.0, 128.0, 256.0, 512.0, 1024.0] + [2048.0 + 64.0 * i for i in range(1200)]     # seconds since 1970: powers of two, so that 1/t is exact in binary floating point


def make_track(n, xs=None, ys=None, zs=None, feats=None):
    from tracklib.core import Track, Obs, ENUCoords, ObsTime
    xs = xs if xs is not None else [float(i) for i in range(n)]
    ys = ys if ys is not None else [float(2 * i) for i in range(n)]
    zs = zs if zs is not None else [0.0] * n
    tr = Track([Obs(ENUCoords(xs[i], ys[i], zs[i]), ObsTime.readUnixTime(TS[i])) for i in range(n)])
    for name, vals in (feats or {}).items():
        tr.createAnalyticalFeature(name, list(vals))
    return tr


def same_value(a, b):
    """exact sameness of two stored values (identity for proxies, NaN-aware equality for floats)"""
    if a is b:
        return True
    if core.is_sym(a) or core.is_sym(b):
        return False
    if isnan(a) and isnan(b):
        return True
    return type(a) is type(b) and a == b


def table_invariant(track):
    """representation invariant of the feature table; returns None or a message"""
    dico = getattr(track, '_Track__analyticalFeaturesDico', None)
    if not isinstance(dico, dict) or (track.size() and not isinstance(getattr(track.getObs(0), 'features', None), list)):
        raise core.Unsupported('the feature table (anchored state _Track__analyticalFeaturesDico / Obs.features) is not available')
    k = len(dico)
    if sorted(dico.values()) != list(range(k)):
        return 'listed names do not map one-to-one onto columns 0..k-1'
    for name in dico:
        if name.startswith('#'):
            return 'an evaluator temporary remains listed'
    for i in range(track.size()):
        if len(track.getObs(i).features) != k:
            return 'an observation does not carry exactly one value per listed feature'
    return None
