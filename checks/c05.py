"""C05 — linear resampling returns the piecewise-linear interpolant of the track."""
import sys
import math
import z3
from symx.runner import Check
from symx import core
from symx.core import zreal, zterm
from symx.lifts import std_patches

ITP = 'tracklib.algo.interpolation'
TRK = 'tracklib.core.track'
OT = 'tracklib.core.obs_time'
COORDS = 'tracklib.core.obs_coords'
KMAX = 3          # at most KMAX requested instants / samples per query


def mk_track(xs, ys, zs, secs, mss):
    from tracklib.core import Track, Obs, ENUCoords, ObsTime
    return Track([Obs(ENUCoords(xs[i], ys[i], zs[i]), ObsTime(1970, 1, 1, 0, 0, secs[i], mss[i])) for i in range(len(xs))])


def lin_interp(ts, vs, t):
    for i in range(len(ts) - 1):
        if ts[i] < t <= ts[i + 1]:
            w = (t - ts[i]) / (ts[i + 1] - ts[i])
            return vs[i] * (1 - w) + vs[i + 1] * w
    return None


class C05(Check):
    id = 'C05'
    title = 'Linear resampling returns the piecewise-linear interpolant of the track'
    functions = ['Track.resample', 'interpolation.resample', 'interpolation.__resampleTemporal', 'interpolation.prepareTimeSampling', 'interpolation.__resampleSpatial',
                 'ObsTime.toAbsTime', 'ObsTime.readUnixTime', 'ENUCoords.distance2DTo']
    stubs = ['interpolation / obs_time / track int and float rebound to lifted classes (int(<real>) truncates toward zero as a z3 term; isinstance(step, float) recognises a symbolic step)',
             'obs_coords.math rebound: sqrt of a symbolic term is a fresh root variable']
    assumptions = ['fixes: symbolic x, y, z in [-100, 100]; timestamps in the first minute of 1970-01-01 with symbolic integer second and millisecond, strictly increasing',
                   'requested instants: a symbolic integer-millisecond step giving at most %d samples, or a non-decreasing list / reference track of 1..%d symbolic instants (documented input: a sampling)' % (KMAX, KMAX),
                   'spatial: symbolic coordinates and sampling distance ds with at most %d samples; concrete timestamps 0, 10, 20 s' % KMAX]
    outside = ['unsorted instant lists', 'spline / Gaussian-process algorithms', 'floating-point rounding of the weights and of the millisecond truncation', 'resample(npts=...) and factor', 'more than 3 fixes']
    budget = {'quick': 240, 'thorough': 2400}

    def bounds(self, tier):
        return dict(temporal='n = 2..3 fixes x {step, list of 1..%d instants, reference track}' % KMAX, spatial='n = 2 fixes (quick) / 2..3 fixes (thorough), up to %d samples' % KMAX)

    def jobs(self, tier, seed):
        js = []
        for n in (2, 3):
            js.append(dict(kind='temporal', n=n, form='step'))
            for m in range(1, KMAX + 1):
                if tier == 'quick' and n == 3 and m == 3:
                    continue
                js.append(dict(kind='temporal', n=n, form='list', m=m))
            js.append(dict(kind='temporal', n=n, form='track', m=2))
            if n == 2 or tier != 'quick':        # 3 fixes: ~4 min of non-linear queries, thorough tier
                js.append(dict(kind='spatial', n=n))
        js.sort(key=lambda j: -(j['n'] * 10 + j.get('m', 3)))
        # scale probes: longer fixed tracks (uneven spacing: long legs first, then a dense zig-zag; irregular sampling), symbolic step in a narrow range
        for shape in (('sparse_first',) if tier == 'quick' else ('sparse_first', 'dense_first', 'even')):
            for n in ((12,) if tier == 'quick' else (8, 9, 12, 24)):
                for ds in ((34.0, 7.25) if tier == 'quick' else (34.0, 7.25, 125.5, 1.0, 300.0)):
                    js.append(dict(kind='spatial_long', n=n, shape=shape, step=ds))
                # value-kind probes: the numeric step given as Python int, numpy float, numpy int
                for st, sk in ((2000, 'int'), (2500, 'npfloat'), (1000.0 / 3, 'npfloat'), (3000, 'npint')):
                    js.append(dict(kind='temporal_long', n=n, shape=shape, step=st, stepkind=sk))
                # leftover-state probe: abs_curv computed, then the geometry edited in place, then spatial resampling
                js.append(dict(kind='spatial_long', n=n, shape=shape, step=34.0, stale=True))
                js.append(dict(kind='spatial_long', n=n, shape=shape, step=7.25, stale=True))
                for st in ((3350, 333, 1000.0 / 3, 162.5) if tier == 'quick' else (3350, 333, 1000, 162, 9050, 40, 1000.0 / 3, 162.5, 1000.0 / 7, 62.5)):      # milliseconds, whole and fractional
                    js.append(dict(kind='temporal_long', n=n, shape=shape, step=st))
        return js

    def patches(self, job):
        return std_patches([ITP, TRK, OT, COORDS], math=True, ints=True)

    # ------------------------------------------------------------------
    def _fixes(self, eng, inp, n, symtime):
        sym = inp is None
        g = (lambda nm: eng.real(nm, -100, 100)) if sym else (lambda nm: float(inp[nm]))
        gi = (lambda nm, lo, hi: eng.int(nm, lo, hi)) if sym else (lambda nm, lo, hi: int(inp[nm]))
        xs, ys, zs = [g('x%d' % i) for i in range(n)], [g('y%d' % i) for i in range(n)], [g('z%d' % i) for i in range(n)]
        if symtime:
            secs = [gi('s%d' % i, 0, 50) for i in range(n)]
            mss = [gi('m%d' % i, 0, 999) for i in range(n)]
            if sym:
                ks = [zterm(secs[i]) * 1000 + zterm(mss[i]) for i in range(n)]
                eng.assume(z3.And([a < b for a, b in zip(ks, ks[1:])]))
        else:
            secs, mss = [10 * i for i in range(n)], [0] * n
        return xs, ys, zs, secs, mss

    def _request(self, eng, inp, job, tms):
        """returns (delta argument for resample, list of requested instants in ms (z3 Int terms or ints))"""
        from tracklib.core import ObsTime
        sym = inp is None
        if job['form'] == 'step':
            if sym:
                st = eng.int('stepms', 1, 60000)
                eng.assume(st.z * KMAX >= tms[-1] - tms[0])
                return st / 1000.0, [tms[0] + k * st.z for k in range(0, KMAX + 1)]
            st = int(inp['stepms'])
            return st / 1000.0, [tms[0] + k * st for k in range(0, KMAX + 1)]
        m = job['m']
        if sym:
            rs = [eng.int('rs%d' % k, 0, 59) for k in range(m)]
            rm = [eng.int('rm%d' % k, 0, 999) for k in range(m)]
            ks = [rs[k].z * 1000 + rm[k].z for k in range(m)]
            if m > 1:
                eng.assume(z3.And([a <= b for a, b in zip(ks, ks[1:])]))
        else:
            rs = [int(inp['rs%d' % k]) for k in range(m)]
            rm = [int(inp['rm%d' % k]) for k in range(m)]
            ks = [rs[k] * 1000 + rm[k] for k in range(m)]
        stamps = [ObsTime(1970, 1, 1, 0, 0, rs[k], rm[k]) for k in range(m)]
        if job['form'] == 'list':
            return stamps, ks
        from tracklib.core import Track, Obs, ENUCoords
        return Track([Obs(ENUCoords(0.0, 0.0, 0.0), s) for s in stamps]), ks

    @staticmethod
    def _long_fixes(job, eng, inp):
        n, shape = job['n'], job['shape']
        xs, ys = [0.0], [0.0]
        for i in range(1, n):
            long_leg = (i <= n // 3) if shape == 'sparse_first' else ((i > n - 1 - n // 3) if shape == 'dense_first' else False)
            if shape == 'even':
                dx, dy = 30.0, 10.0 * (1 if i % 2 else -1)
            elif long_leg:
                dx, dy = 100.0, 25.0 * (1 if i % 2 else -1)
            else:
                dx, dy = 4.0, 9.0 * (1 if i % 2 else -1)
            xs.append(xs[-1] + dx)
            ys.append(ys[-1] + dy)
        zs = [float((i * 5) % 7) for i in range(n)]
        for i in (1, n - 2):       # the symbolic payload: two heights (the step and the planimetric geometry are fixed, so the control flow is concrete)
            zs[i] = eng.real('z%d' % i, -50, 50) if inp is None else float(inp['z%d' % i])
        gaps = [1 + (i * 3) % 5 for i in range(n - 1)]        # irregular sampling: 1..5 s between fixes
        ts = [0]
        for g in gaps:
            ts.append(ts[-1] + g)
        return xs, ys, zs, ts

    def _long(self, ctx, job, inp):
        """scale probes; with inp None: symbolic run (ctx given); else concrete replay returning the result dict"""
        sym = inp is None
        eng = ctx.eng if sym else None
        n = job['n']
        xs, ys, zs, ts = self._long_fixes(job, eng, inp)
        from tracklib.core import Track, Obs, ENUCoords, ObsTime
        tr = Track([Obs(ENUCoords(xs[i], ys[i], zs[i]), ObsTime(1970, 1, 1, 0, ts[i] // 60, ts[i] % 60, 0)) for i in range(n)])
        S = [0.0]
        for i in range(n - 1):
            S.append(S[-1] + math.hypot(xs[i + 1] - xs[i], ys[i + 1] - ys[i]))
        tolq = z3.Q(1, 10 ** 6)

        def near(a, b, scale=1.0):
            if sym:
                return z3.And(a - b <= tolq * scale, b - a <= tolq * scale)
            return abs(a - b) <= 1e-6 * scale
        if job['kind'] == 'spatial_long':
            ds = float(job['step'])
            if job.get('stale'):
                # a history: the curvilinear abscissa is computed (as plotting a profile does), then two fixes are moved in place
                from tracklib.algo.cinematics import computeAbsCurv
                computeAbsCurv(tr)
                for i, (dx, dy) in ((2, (35.0, -20.0)), (n - 3, (-3.0, 11.0))):
                    xs[i] += dx
                    ys[i] += dy
                    tr.getObs(i).position.setX(xs[i])
                    tr.getObs(i).position.setY(ys[i])
                S = [0.0]
                for i in range(n - 1):
                    S.append(S[-1] + math.hypot(xs[i + 1] - xs[i], ys[i + 1] - ys[i]))
            tr.resample(ds, 1, 1)
            m = tr.size()
            if sym:
                ctx.reach()
                ctx.observe(size=m)
            dz = ds
            desc = '%d-fix %s track (heights %r), ds %r' % (n, job['shape'], zs if not sym else '?', ds)
            okn = ((m - 1) * dz <= S[-1] + 1e-6 and m * dz > S[-1] - 1e-6)
            if sym and not okn:
                ctx.fail('long track: the samples are not the first fix and the points at abscissas ds, 2ds, ... up to the length of the track')
                return None
            if not okn:
                return dict(violation='%s: %d samples for a length of %r' % (desc, m, S[-1]), outputs=dict(size=m))
            p0 = tr.getObs(0).position
            if (p0.getX(), p0.getY()) != (xs[0], ys[0]) or p0.getZ() is not zs[0] and p0.getZ() != zs[0]:
                if sym:
                    ctx.fail('long track: the first resampled point is not the first fix')
                    return None
                return dict(violation='%s: first sample is not the first fix' % desc, outputs=dict(size=m))
            prev = None
            for k in range(1, m):
                o = tr.getObs(k)
                s = k * dz
                got = (o.position.getX(), o.position.getY(), o.position.getZ())
                t = o.timestamp
                tsec = (zreal(t.sec) + zreal(t.ms) / 1000 + 60 * zreal(t.min)) if sym else (t.sec + t.ms / 1000.0 + 60 * t.min)
                if sym:
                    br = []
                    for i in range(n - 1):
                        L = S[i + 1] - S[i]
                        wf, wb = (s - S[i]) / L, (S[i + 1] - s) / L
                        ti = ts[i] * wb + ts[i + 1] * wf
                        if not (S[i] - 1e-6 < s <= S[i + 1] + 1e-6):
                            continue
                        br.append(z3.And(near(zreal(got[0]), zreal(xs[i] * wb + xs[i + 1] * wf)), near(zreal(got[1]), zreal(ys[i] * wb + ys[i + 1] * wf)),
                                         near(zreal(got[2]), zreal(zs[i] * wb + zs[i + 1] * wf)), tsec <= ti + 1e-6, tsec + 0.0011 >= ti))
                    if not ctx.prove(z3.And(z3.Or(br) if br else z3.BoolVal(False), tsec >= prev if prev is not None else True),
                                     'long track: sample k lies on the polyline at abscissa k*ds with linearly interpolated height and timestamp; timestamps never decrease'):
                        return None
                else:
                    for name, vs, g in (('x', xs, got[0]), ('y', ys, got[1]), ('z', zs, got[2])):
                        w = lin_interp(S, vs, s)
                        if w is not None and abs(g - w) > 1e-5 * (1 + abs(w)):
                            return dict(violation='%s: sample %d has %s = %r, the point at abscissa %r has %r' % (desc, k, name, g, s, w), outputs=dict(size=m))
                    w = lin_interp(S, [float(v) for v in ts], s)
                    if w is not None and (not (w - 0.0011 <= tsec <= w + 1e-5) or (prev is not None and tsec < prev)):
                        return dict(violation='%s: sample %d stamped %r s, interpolated time %r (previous %r)' % (desc, k, tsec, w, prev), outputs=dict(size=m))
                prev = tsec
            return dict(violation=None, outputs=dict(size=m))
        # temporal, numeric step in milliseconds
        st = job['step']
        if job.get('stepkind'):
            import numpy as np
            arg = {'int': lambda v: int(round(v / 1000.0)), 'npfloat': lambda v: np.float64(v / 1000.0), 'npint': lambda v: np.int64(round(v / 1000.0))}[job['stepkind']](st)
            st = float(arg) * 1000.0
        else:
            arg = st / 1000.0
        tr.resample(arg, 1, 2)
        m = tr.size()
        if sym:
            ctx.reach()
            ctx.observe(size=m)
        stz = st
        T = ts[-1] * 1000
        desc = '%d-fix %s track (heights %r), step %r ms' % (n, job['shape'], zs if not sym else '?', st)
        okn = (m * stz <= T + 1e-6 and (m + 1) * stz > T - 1e-6)
        if sym and not okn:
            ctx.fail('long track: not exactly one sample per requested instant in (t_first, t_last]')
            return None
        if not okn:
            return dict(violation='%s: %d samples for a duration of %d ms' % (desc, m, T), outputs=dict(size=m))
        for k in range(1, m + 1):
            o = tr.getObs(k - 1)
            t = o.timestamp
            r = k * stz
            got = (o.position.getX(), o.position.getY(), o.position.getZ())
            if sym:
                stamp = (zterm(t.sec) + 60 * zterm(t.min)) * 1000 + zterm(t.ms)
                br = []
                for i in range(n - 1):
                    dt = 1000.0 * (ts[i + 1] - ts[i])
                    if not (1000 * ts[i] < r <= 1000 * ts[i + 1]):
                        continue
                    wf, wb = (r - 1000 * ts[i]) / dt, (1000 * ts[i + 1] - r) / dt
                    br.append(z3.And(near(zreal(got[0]), zreal(xs[i] * wb + xs[i + 1] * wf)), near(zreal(got[1]), zreal(ys[i] * wb + ys[i + 1] * wf)),
                                     near(zreal(got[2]), zreal(zs[i] * wb + zs[i + 1] * wf))))
                if not ctx.prove(z3.And(stamp - r <= 1, r - stamp <= 1, z3.Or(br) if br else z3.BoolVal(False)), 'long track: sample k is stamped with the k-th requested instant and lies at the linear interpolation between the bracketing fixes'):
                    return None
            else:
                stamp = (t.sec + 60 * t.min) * 1000 + t.ms
                if abs(stamp - r) > 1 or (t.year, t.month, t.day, t.hour) != (1970, 1, 1, 0):
                    return dict(violation='%s: sample %d stamped %s (ms %r) for the requested instant %r ms' % (desc, k, t, stamp, r), outputs=dict(size=m))
                for name, vs, g in (('x', xs, got[0]), ('y', ys, got[1]), ('z', zs, got[2])):
                    w = lin_interp([1000.0 * v for v in ts], vs, r)
                    if w is not None and abs(g - w) > 1e-5 * (1 + abs(w)):
                        return dict(violation='%s: sample at %r ms has %s = %r, linear interpolation gives %r' % (desc, r, name, g, w), outputs=dict(size=m))
        return dict(violation=None, outputs=dict(size=m))

    def path(self, ctx, job):
        eng = ctx.eng
        n = job['n']
        try:
            if job['kind'].endswith('_long'):
                self._long(ctx, job, None)
                return
            if job['kind'] == 'temporal':
                xs, ys, zs, secs, mss = self._fixes(eng, None, n, True)
                tms = [zterm(secs[i]) * 1000 + zterm(mss[i]) for i in range(n)]
                delta, req = self._request(eng, None, job, tms)
                if job['form'] == 'step':
                    # boundary hints for the concolic fallback: steps that divide the duration exactly (named by the property)
                    st = eng.inputs['stepms']
                    ctx.hints = [st * k == tms[-1] - tms[0] for k in (1, 2, 3)]
                tr = mk_track(xs, ys, zs, secs, mss)
                tr.resample(delta, 1, 2)
                ctx.reach()
                m = tr.size()
                ctx.observe(size=m)
                ctx.note = '%d samples' % m
                K = len(req)
                outs = []
                for j in range(m):
                    o = tr.getObs(j)
                    t = o.timestamp
                    if not all(isinstance(v, int) and v == w for v, w in ((t.year, 1970), (t.month, 1), (t.day, 1), (t.hour, 0), (t.min, 0))):
                        # the fields may be symbolic terms: they must still denote 1970-01-01 00:00
                        if not ctx.prove(z3.And(zterm(t.year) == 1970, zterm(t.month) == 1, zterm(t.day) == 1, zterm(t.hour) == 0, zterm(t.min) == 0),
                                         'a sample is stamped with the requested instant (date part)'):
                            return
                    outs.append((zterm(t.sec) * 1000 + zterm(t.ms), zreal(o.position.getX()), zreal(o.position.getY()), zreal(o.position.getZ())))
                t0, tl = tms[0], tms[-1]
                X, Y, Z = [zreal(v) for v in xs], [zreal(v) for v in ys], [zreal(v) for v in zs]
                opts = []
                for a in range(0, K - m + 1):
                    cs = [req[k] <= t0 for k in range(a)]
                    if a < K:
                        cs.append(req[a] > t0 if m > 0 or a + m < K else z3.BoolVal(True))
                    cs += [req[a + j] <= tl for j in range(m)]
                    if a + m < K:
                        cs.append(z3.Or(req[a + m] > tl, req[a + m] <= t0) if m == 0 else req[a + m] > tl)
                    for j in range(m):
                        r = req[a + j]
                        st, ox, oy, oz = outs[j]
                        cs.append(st == r)
                        br = []
                        for i in range(n - 1):
                            dt = z3.ToReal(tms[i + 1] - tms[i])
                            wf, wb = z3.ToReal(r - tms[i]), z3.ToReal(tms[i + 1] - r)
                            br.append(z3.And(tms[i] < r, r <= tms[i + 1], ox * dt == X[i] * wb + X[i + 1] * wf, oy * dt == Y[i] * wb + Y[i + 1] * wf, oz * dt == Z[i] * wb + Z[i + 1] * wf))
                        cs.append(z3.Or(br))
                    opts.append(z3.And(cs))
                if m == 0:
                    # no sample: no requested instant lies in (t0, t_last]
                    ctx.prove(z3.And([z3.Or(r <= t0, r > tl) for r in req]), 'one sample for every requested instant after the first and not after the last timestamp (none here)')
                    return
                ctx.prove(z3.Or(opts) if opts else z3.BoolVal(False),
                          'exactly one sample per requested instant in (t_first, t_last], at the linear interpolation between the bracketing fixes, stamped with that instant')
                return
            # ---------------- spatial
            xs, ys, zs, secs, mss = self._fixes(eng, None, n, False)
            ds = eng.real('ds', 0, 500)
            tr = mk_track(xs, ys, zs, secs, mss)
            pos = [tr.getObs(i).position for i in range(n)]
            legs = [zreal(pos[i].distance2DTo(pos[i + 1])) for i in range(n - 1)]       # the code's own (memoised) root variables
            orc = []
            for i in range(n - 1):                                                   # the oracle's independent roots, proved equal (lemma)
                r = eng.fresh_real('leg')
                dx, dy = xs[i + 1].z - xs[i].z, ys[i + 1].z - ys[i].z
                eng.assume(z3.And(r >= 0, r * r == dx * dx + dy * dy), check=False)
                orc.append(r)
            L = z3.Sum(legs) if len(legs) > 1 else legs[0]
            eng.assume(z3.And(ds.z > 0, ds.z * KMAX >= L, ds.z * (KMAX + 1) > L))
            tr.resample(ds, 1, 1)
            ctx.reach()
            m = tr.size()
            ctx.observe(size=m)
            for i in range(n - 1):
                if not ctx.lemma(legs[i] == orc[i], 4000):
                    ctx.prove(legs[i] == orc[i], 'leg length is the planimetric distance (lemma)')
            o0 = tr.getObs(0)
            if not (o0.position.getX() is xs[0] and o0.position.getY() is ys[0] and o0.position.getZ() is zs[0]):
                ctx.fail('the first resampled point is not the first fix')
                return
            # number of samples: N = floor(L / ds)
            if not ctx.prove(z3.And((m - 1) * ds.z <= L, m * ds.z > L), 'the samples are the first fix and the points at abscissas ds, 2ds, ... up to the length of the track'):
                return
            S = [z3.RealVal(0)]
            for r in legs:
                S.append(S[-1] + r)
            X, Y, Z = [zreal(v) for v in xs], [zreal(v) for v in ys], [zreal(v) for v in zs]
            prev_t = z3.RealVal(0)
            for k in range(1, m):
                o = tr.getObs(k)
                ox, oy, oz = zreal(o.position.getX()), zreal(o.position.getY()), zreal(o.position.getZ())
                s = k * ds.z
                br = []
                for i in range(n - 1):
                    wf, wb = s - S[i], S[i + 1] - s
                    br.append(z3.And(S[i] < s, s <= S[i + 1], legs[i] > 0, ox * legs[i] == X[i] * wb + X[i + 1] * wf, oy * legs[i] == Y[i] * wb + Y[i + 1] * wf,
                                     oz * legs[i] == Z[i] * wb + Z[i + 1] * wf))
                if not ctx.prove(z3.Or(br), 'sample k lies on the polyline at curvilinear abscissa k*ds with linearly interpolated height'):
                    return
                t = o.timestamp
                tsec = zreal(t.sec) + zreal(t.ms) / 1000 + 60 * zreal(t.min)
                tb = []
                for i in range(n - 1):
                    wf, wb = s - S[i], S[i + 1] - s
                    ti = (10.0 * i * wb + 10.0 * (i + 1) * wf)
                    tb.append(z3.And(S[i] < s, s <= S[i + 1], tsec * legs[i] <= ti, (tsec + z3.Q(1, 1000)) * legs[i] > ti))
                if not ctx.prove(z3.And(z3.Or(tb), tsec >= prev_t), 'sample k carries the linearly interpolated timestamp (to the millisecond) and timestamps never decrease'):
                    return
                prev_t = tsec
        except (core._Abort, core._Stop, core.Unsupported):
            raise
        except (Exception, SystemExit) as e:
            if isinstance(e, TypeError) and ('SReal' in str(e) or 'SInt' in str(e)):
                raise
            ctx.fail('%s resampling raised %s' % (job['kind'], type(e).__name__))

    # ------------------------------------------------------------------
    def concrete(self, job, inp):
        n = job['n']
        try:
            if job['kind'].endswith('_long'):
                return self._long(None, job, inp)
            if job['kind'] == 'temporal':
                xs, ys, zs, secs, mss = self._fixes(None, inp, n, True)
                tms = [secs[i] * 1000 + mss[i] for i in range(n)]
                delta, req = self._request(None, inp, job, tms)
                tr = mk_track(xs, ys, zs, secs, mss)
                tr.resample(delta, 1, 2)
                want = [r for r in req if tms[0] < r <= tms[-1]]
                got = [(tr.getObs(j).timestamp, tr.getObs(j).position) for j in range(tr.size())]
                desc = 'fixes %r at ms %r, requested ms %r' % (list(zip(xs, ys, zs)), tms, req)
                out = dict(size=tr.size())
                if job['form'] == 'step' and want and want[-1] == tms[-1] and len(got) == len(want) - 1:
                    # the step divides the duration exactly: the last instant is reached by repeated float addition (t += step), which may overshoot
                    # t_last by an ulp (0.016 + 3 * 0.001 = 0.019000000000000003 > 0.019).  With floats as reals that border is undefined: the shorter
                    # count is accepted only when an independent accumulation in binary64 does overshoot (exactly representable cases stay required)
                    acc, tl = tms[0] / 1000.0, tms[-1] / 1000.0
                    for _ in range(len(want)):
                        acc += delta
                    if 0 < acc - tl < 1e-9:
                        want = want[:-1]
                if len(got) != len(want):
                    return dict(violation='%s: %d samples returned, %d requested instants lie in (t_first, t_last]' % (desc, len(got), len(want)), outputs=out)
                for (t, p), r in zip(got, want):
                    st = t.sec * 1000 + t.ms + 60000 * t.min
                    if (t.year, t.month, t.day, t.hour) != (1970, 1, 1, 0) or abs(st - r) > 1:
                        return dict(violation='%s: sample stamped %s (ms %r) for the requested instant %r ms' % (desc, t, st, r), outputs=out)
                    for name, vs, g in (('x', xs, p.getX()), ('y', ys, p.getY()), ('z', zs, p.getZ())):
                        w = lin_interp(tms, vs, r)
                        if abs(g - w) > 1e-6 * (1 + abs(w)):
                            return dict(violation='%s: sample at %r ms has %s = %r, linear interpolation gives %r' % (desc, r, name, g, w), outputs=out)
                return dict(violation=None, outputs=out)
            xs, ys, zs, secs, mss = self._fixes(None, inp, n, False)
            ds = float(inp['ds'])
            tr = mk_track(xs, ys, zs, secs, mss)
            S = [0.0]
            for i in range(n - 1):
                S.append(S[-1] + math.hypot(xs[i + 1] - xs[i], ys[i + 1] - ys[i]))
            tr.resample(ds, 1, 1)
            m = tr.size()
            out = dict(size=m)
            desc = 'fixes %r, ds %r (length %r)' % (list(zip(xs, ys, zs)), ds, S[-1])
            N = int(S[-1] / ds)
            if abs(S[-1] / ds - round(S[-1] / ds)) > 1e-9 and m != N + 1:
                return dict(violation='%s: %d samples, expected the first fix and %d samples' % (desc, m, N), outputs=out)
            p0 = tr.getObs(0).position
            if (p0.getX(), p0.getY()) != (xs[0], ys[0]) or p0.getZ() is not zs[0] and p0.getZ() != zs[0]:
                return dict(violation='%s: first sample is not the first fix' % desc, outputs=out)
            prev = -1.0
            for k in range(1, m):
                s = k * ds
                o = tr.getObs(k)
                for name, vs, g in (('x', xs, o.position.getX()), ('y', ys, o.position.getY()), ('z', zs, o.position.getZ()), ('t', [10.0 * i for i in range(n)], None)):
                    w = lin_interp(S, vs, s)
                    if w is None:
                        continue
                    if g is None:
                        g = o.timestamp.toAbsTime()
                        if not (w - 0.0011 <= g <= w + 1e-6) or g < prev:
                            return dict(violation='%s: sample %d stamped %r s, interpolated time %r (previous %r)' % (desc, k, g, w, prev), outputs=out)
                        prev = g
                    elif abs(g - w) > 1e-6 * (1 + abs(w)):
                        return dict(violation='%s: sample %d has %s = %r, the point at abscissa %r has %r' % (desc, k, name, g, s, w), outputs=out)
            return dict(violation=None, outputs=out)
        except (Exception, SystemExit) as e:
            return dict(violation='%s resampling raised %s: %s (inputs %r)' % (job['kind'], type(e).__name__, e, inp))


CHECK = C05()
