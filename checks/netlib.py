"""shared helpers for the network checks (C06, C07): topology enumeration, network construction, walk oracle"""
import itertools
import random
import z3

NODE_POS = {'n0': (0.0, 0.0), 'n1': (100.0, 0.0), 'n2': (0.0, 100.0), 'n3': (100.0, 100.0), 'n4': (50.0, 200.0)}
NODE_POS.update({int(k[1:]): v for k, v in list(NODE_POS.items())})       # value-kind probes: the same nodes named by the integers 0, 1, 2, ... (0 is falsy)


def int_ids(topo):
    """the same topology with integer node names"""
    return [(int(a[1:]), int(b[1:]), o) for a, b, o in topo]


def edge_types(nodes):
    return [(a, b, o) for a in nodes for b in nodes for o in (-1, 0, 1)]


def topologies(nodes, k):
    """all multisets of k edge types (source, target, orientation) over the node set: self-loops, parallel
    edges, all orientations"""
    return [list(t) for t in itertools.combinations_with_replacement(edge_types(nodes), k)]


def random_topology(rng, nnodes, nedges):
    nodes = ['n%d' % i for i in range(nnodes)]
    return [(rng.choice(nodes), rng.choice(nodes), rng.choice((-1, 0, 0, 1))) for _ in range(nedges)]


def geometry(topo, i, style):
    """concrete polyline of edge i from its source node to its target node.
    style 'mid': unique intermediate vertices (1 for even i, 2 for odd i) so the edge used can be read off the
    returned geometry; style 'plain': the two end vertices only."""
    a, b, _ = topo[i]
    (xa, ya), (xb, yb) = NODE_POS[a], NODE_POS[b]
    pts = [(xa, ya)]
    if style == 'long':
        # scale probe: 33 + (i mod 3) * 14 unique intermediate vertices on a wavy line from the source to the target (a loop for a == b)
        m = 33 + (i % 3) * 14
        for k in range(1, m + 1):
            f = k / (m + 1.0)
            bump = (11.0 + 3 * i) * (1 if k % 2 else -1) + 0.25 * k
            if a == b:
                pts.append((xa + 40.0 * f * (1 - f) * (i + 1) + 0.5 * k, ya + bump))
            else:
                pts.append((xa + (xb - xa) * f + (bump if ya != yb else 0.0) + 0.001 * (i + 1), ya + (yb - ya) * f + (bump if ya == yb else 0.125 * k)))
    elif style == 'mid' or a == b:
        off = 7.0 * (i + 1)
        if i % 2 == 0 and a != b:
            pts.append(((xa + xb) / 2 + off, (ya + yb) / 2 + off + 1))
        else:
            pts.append((xa + (xb - xa) / 3 + off, ya + (yb - ya) / 3 - off - 2))
            pts.append((xa + 2 * (xb - xa) / 3 - off - 3, ya + 2 * (yb - ya) / 3 + off))
    pts.append((xb, yb))
    return pts


def build(topo, W, allnodes, style='plain', int_edge_ids=False):
    from tracklib.core.network import Network, Node, Edge
    from tracklib.core import ENUCoords, Track, Obs
    net = Network()
    nodes = {n: Node(n, ENUCoords(NODE_POS[n][0], NODE_POS[n][1], 0)) for n in allnodes}
    for n in allnodes:
        net.addNode(nodes[n])
    for i, (a, b, ori) in enumerate(topo):
        g = Track([Obs(ENUCoords(x, y, 0)) for (x, y) in geometry(topo, i, style)])
        e = Edge(i if int_edge_ids else 'e%d' % i, g)
        e.orientation = ori
        e.weight = W[i]
        net.addEdge(e, nodes[a], nodes[b])
    return net


def arcs(topo):
    out = []
    for i, (a, b, ori) in enumerate(topo):
        if ori >= 0:
            out.append((a, b, i))
        if ori <= 0:
            out.append((b, a, i))
    return out


def simple_walks(topo, s, t):
    """all simple permitted walks s -> t as lists of edge indices (sufficient for non-negative weights)"""
    A = arcs(topo)
    out = []

    def rec(u, seen, es):
        if u == t:
            out.append(list(es))
            return
        for (a, b, i) in A:
            if a == u and b not in seen:
                rec(b, seen | {b}, es + [i])
    rec(s, {s}, [])
    return out


def walk_sums(topo, s, t, Wz):
    if s == t:
        return [z3.RealVal(0)]
    return [z3.Sum([Wz[i] for i in p]) if len(p) > 1 else Wz[p[0]] for p in simple_walks(topo, s, t)]


def is_min(d, sums):
    return z3.And(z3.Or([d == x for x in sums]), z3.And([d <= x for x in sums]))


def floyd(topo, W, nodes):
    INF = float('inf')
    D = {(a, b): (0 if a == b else INF) for a in nodes for b in nodes}
    for (a, b, i) in arcs(topo):
        if W[i] < D[(a, b)]:
            D[(a, b)] = W[i]
    for k in nodes:
        for a in nodes:
            for b in nodes:
                if D[(a, k)] + D[(k, b)] < D[(a, b)]:
                    D[(a, b)] = D[(a, k)] + D[(k, b)]
    return D
