"""C10 — map-matched positions lie on a real edge within the search radius."""
import sys
import math
import z3
from symx.runner import Check
from symx import core
from symx.core import zreal
from symx.lifts import std_patches

MAP = 'tracklib.algo.mapping'
GEO = 'tracklib.util.geometry'
DYN = 'tracklib.algo.dynamics'
SI = 'tracklib.core.spatial_index'
COORDS = 'tracklib.core.obs_coords'
NET = 'tracklib.core.network'
TRK = 'tracklib.core.track'

# concrete networks: edge id -> polyline; node ids are derived from the end positions
NETS = {
    'L':    {1: [(0, 0), (10, 0)], 2: [(10, 0), (10, 5)], 3: [(10, 5), (20, 5)]},                     # horizontal + vertical (as in the repository's test)
    'tri':  {1: [(0, 0), (3, 4)], 2: [(3, 4), (7, 1)], 3: [(7, 1), (0, 0)]},                          # oblique edges only
    'bend': {1: [(0, 0), (4, 3), (12, 3)], 2: [(12, 3), (15, 7)], 3: [(0, 0), (6, -8)]},              # a 3-vertex edge, oblique edges
    'dup':  {1: [(0, 0), (4, 3), (4, 3), (12, 3)], 2: [(12, 3), (15, 7)]},                            # an edge geometry with two consecutive identical vertices
}
# scale probes: a street grid of 24 edges (many candidate edges in one index neighbourhood) and a 9-vertex winding road with side roads
def _grid_net():
    e, k = {}, 1
    for i in range(4):
        for j in range(4):
            if i < 3:
                e[k] = [(10 * i, 10 * j), (10 * i + 10, 10 * j)]
                k += 1
            if j < 3:
                e[k] = [(10 * i, 10 * j), (10 * i, 10 * j + 10)]
                k += 1
    return e


NETS['grid'] = _grid_net()
NETS['road'] = {1: [(0, 0), (5, 2), (10, 0), (15, 3), (20, 1), (25, 4), (30, 2), (35, 5), (40, 3)], 2: [(40, 3), (45, 8)], 3: [(0, 0), (-4, -5)], 4: [(20, 1), (22, -6)]}
NETBOX = {'grid': (12.0, 18.0, 11.0, 19.0), 'road': (24.0, 38.0, 0.5, 6.5)}      # the symbolic fix of these networks stays in this box (never on the line of a vertical edge)
INDEXES = {'r51': ((5, 1), 0.15), 'r22': ((2, 2), 0.25), 'coarse': ((20, 20), 0.1)}
RADII = [2.0, 5.5, 50.0]
BOX = (-8.0, 28.0, -10.0, 14.0)


def build_network(name, idx):
    from tracklib.core import Track, Obs, ENUCoords, ObsTime
    from tracklib.core.network import Network, Node, Edge
    from tracklib.core.spatial_index import SpatialIndex
    from tracklib.algo.cinematics import computeAbsCurv
    net = Network()
    nid = {}
    for eid, pts in NETS[name].items():
        tr = Track([Obs(ENUCoords(float(x), float(y), 0.0), ObsTime()) for x, y in pts], eid)
        computeAbsCurv(tr)
        e = Edge(eid, tr)
        e.orientation = Edge.DOUBLE_SENS
        e.weight = tr.length()
        a, b = pts[0], pts[-1]
        for p in (a, b):
            nid.setdefault(p, len(nid) + 1)
        net.addEdge(e, Node(nid[a], tr.getFirstObs().position), Node(nid[b], tr.getLastObs().position))
    res, margin = INDEXES[idx]
    net.spatial_index = SpatialIndex(net, resolution=list(res), margin=margin, verbose=False)
    net.prepare(verbose=False)
    return net


def net_pts(job, eid):
    dx, dy = job.get('moved') or (0.0, 0.0)
    return [(x + dx, y + dy) for x, y in NETS[job['net']][eid]]


class RecordingHMM:
    """cut: the candidate lists are complete before decoding starts; the decoder is replaced by a no-op in the candidate jobs"""

    def __init__(self, *a, **k):
        pass

    def setStates(self, f):
        pass

    def setTransitionModel(self, f):
        pass

    def setObservationModel(self, f):
        pass

    def estimate(self, *a, **k):
        pass


def exp_axioms(x, out):
    return [out.z > 0]


def on_polyline_concrete(pts, x, y):
    best = 1e300
    for (ax, ay), (bx, by) in zip(pts, pts[1:]):
        dx, dy = bx - ax, by - ay
        L2 = dx * dx + dy * dy
        if L2 == 0:
            continue
        lam = min(1.0, max(0.0, ((x - ax) * dx + (y - ay) * dy) / L2))
        best = min(best, math.hypot(x - (ax + lam * dx), y - (ay + lam * dy)))
    return best


class C10(Check):
    id = 'C10'
    title = 'Map-matched positions lie on a real edge within the search radius'
    functions = ['mapping.mapOnNetwork', 'mapping.__mapOnNetwork', 'mapping.__projOnTrack', 'mapping.__distToNode', 'geometry.proj_polyligne', 'geometry.proj_segment',
                 'SpatialIndex.neighborhood', 'Network.getEdgeId', 'dynamics.HMM.estimate (selection jobs)', 'Network.distanceBtwPts (selection jobs)']
    stubs = ['candidate jobs: mapping.HMM replaced by a no-op recorder (candidates are fully built before decoding starts); selection jobs run the real HMM',
             'math rebound in geometry / obs_coords / mapping / spatial_index: sqrt root variables, floor / ceil exact, exp / log uninterpreted (positive; over-approximating the selection is sound because the claim is per candidate)',
             'spatial_index int / float rebound']
    assumptions = ['networks, index resolutions and search radii come from catalogues: %s, %s, %s; the observed position is symbolic in the box %r' % (sorted(NETS), INDEXES, RADII, BOX),
                   'tolerance 1e-9 (scaled) on the on-edge and distance-sum equalities (concrete irrational lengths are doubles)']
    outside = ['networks outside the catalogue', 'more than one symbolic fix', 'optimality of the chosen sequence (C09)', 'geographic coordinates', 'completeness of the candidate set (no claim that a nearby edge is found)']
    classes = {'vertical_edge_line': 'the fix lies exactly on the supporting line of a vertical edge leg (C20 known finding surfacing through map-matching)'}
    budget = {'quick': 240, 'thorough': 2400}

    def bounds(self, tier):
        return dict(candidate_jobs='%s networks x %s indexes x radii %s, one symbolic fix' % (self._nets(tier), self._idx(tier), RADII), selection_jobs='T = 1 symbolic fix' + ('' if tier == 'quick' else ' and T = 2 (second fix concrete)'))

    def _nets(self, tier):
        return ['L', 'tri', 'dup'] if tier == 'quick' else ['L', 'tri', 'bend', 'dup']

    def _idx(self, tier):
        return ['r51'] if tier == 'quick' else ['r51', 'r22']

    def jobs(self, tier, seed):
        js = []
        for n in self._nets(tier):
            for ix in self._idx(tier):
                for r in (RADII if n != 'dup' else [5.5]):
                    # the box is cut in 4 vertical strips (parallelism; the strips cover it)
                    for strip in range(4):
                        js.append(dict(kind='cand', net=n, idx=ix, radius=r, strip=strip))
                if tier != 'quick' or n == 'L':
                    js.append(dict(kind='select', net=n, idx=ix, radius=5.5, T=1))
                    js.append(dict(kind='select', net=n, idx=ix, radius=5.5, T=1, multi=True))      # a collection of two tracks matched in one call
                if tier != 'quick':
                    js.append(dict(kind='select', net=n, idx=ix, radius=5.5, T=2))
        for r in ([3.0] if tier == 'quick' else [2.0, 3.0, 4.0, 6.0]):
            js.append(dict(kind='cand', net='grid', idx='coarse', radius=r))
        for r, ix in ([(2.5, 'r51')] if tier == 'quick' else [(2.0, 'r51'), (3.0, 'r51'), (5.5, 'r22'), (50.0, 'coarse')]):
            for strip in range(8):
                js.append(dict(kind='cand', net='road', idx=ix, radius=r, strip=strip, nstrips=8))
        if tier != 'quick':
            js.append(dict(kind='select', net='road', idx='r51', radius=5.5, T=1))
            js.append(dict(kind='select', net='grid', idx='coarse', radius=6.0, T=1))
        # leftover-state probe: a track is matched, the network's edge geometries are translated in place and its index rebuilt, then the symbolic fix is matched
        for n in (('tri', 'dup') if tier == 'quick' else ('tri', 'bend', 'dup', 'L')):
            for strip in range(4):
                js.append(dict(kind='cand', net=n, idx='r51', radius=5.5, strip=strip, moved=[2.0, 3.0]))
        js.sort(key=lambda j: 0 if j['net'] in ('grid', 'road') else 1)      # scale probes first: the thorough tier may run into its budget on the catalogue networks
        return js

    def patches(self, job):
        m = core.SymMath({'exp': exp_axioms})
        p = std_patches([GEO, COORDS, MAP, SI, DYN], math=True, ints=False, math_obj=m)
        p += [(SI, 'int', core.LInt), (SI, 'float', core.LFloat)]
        if job['kind'] == 'cand':
            p.append((MAP, 'HMM', RecordingHMM))
        return p

    def _vertical_class(self, job, px):
        xs = set()
        for pts in NETS[job['net']].values():
            for (ax, ay), (bx, by) in zip(pts, pts[1:]):
                if ax == bx:
                    xs.add(float(ax) + (job.get('moved') or (0.0, 0.0))[0])
        return z3.Or([zreal(px) == x for x in xs]) if xs else z3.BoolVal(False)

    def _fix(self, eng, inp, job):
        x0, x1, y0, y1 = NETBOX.get(job['net'], BOX)
        if inp is None:
            if 'strip' in job:
                w = (x1 - x0) / job.get('nstrips', 4)
                lo, hi = x0 + job['strip'] * w, x0 + (job['strip'] + 1) * w
            else:
                lo, hi = x0, x1
            return eng.real('px', lo, hi), eng.real('py', y0, y1)
        return float(inp['px']), float(inp['py'])

    def _run(self, job, px, py):
        from tracklib.core import Track, Obs, ENUCoords, ObsTime
        mp = sys.modules[MAP]
        net = build_network(job['net'], job['idx'])
        fixes = [Obs(ENUCoords(px, py, 0.0), ObsTime.readUnixTime(100.0))]
        if job.get('T') == 2:
            fixes.append(Obs(ENUCoords(5.0, 1.0, 0.0), ObsTime.readUnixTime(110.0)))
        tr = Track(fixes)
        if job.get('moved'):
            from tracklib.core.spatial_index import SpatialIndex
            warm = Track([Obs(ENUCoords(1.0, 0.5, 0.0), ObsTime.readUnixTime(10.0)), Obs(ENUCoords(3.0, 1.5, 0.0), ObsTime.readUnixTime(20.0))])
            mp.mapOnNetwork(warm, net, search_radius=job['radius'], debug=False)
            dx, dy = job['moved']
            done = set()
            for eid in net.EDGES:
                g = net.EDGES[eid].geom
                for i in range(g.size()):
                    pos = g.getObs(i).position
                    if id(pos) not in done:
                        done.add(id(pos))
                        pos.translate(dx, dy, 0)
            for nid in net.NODES:
                pos = net.NODES[nid].coord
                if id(pos) not in done:
                    done.add(id(pos))
                    pos.translate(dx, dy, 0)
            res, margin = INDEXES[job['idx']]
            net.spatial_index = SpatialIndex(net, resolution=list(res), margin=margin, verbose=False)
        before = [(o, o.position, o.timestamp, o.position.getX(), o.position.getY()) for o in fixes]
        if job.get('multi'):
            from tracklib.core import TrackCollection
            first = Track([Obs(ENUCoords(5.0, 1.0, 0.0), ObsTime.readUnixTime(50.0)), Obs(ENUCoords(6.0, 1.0, 0.0), ObsTime.readUnixTime(60.0))])
            mp.mapOnNetwork(TrackCollection([first, tr]), net, search_radius=job['radius'], debug=False)
        else:
            mp.mapOnNetwork(tr, net, search_radius=job['radius'], debug=False)
        states = getattr(mp, 'STATES', None)
        if not isinstance(states, list):
            raise core.Unsupported('the candidate table mapping.STATES (anchored state of the property) is not available')
        return net, tr, before, states

    def _check_candidate(self, ctx, job, net, px, py, cand, cls):
        p, e, ds, dt = cand
        if not (isinstance(e, int) and 0 <= e < len(NETS[job['net']])):
            ctx.fail('a candidate does not refer to an existing edge', classes=cls)
            return False
        pts = net_pts(job, net.getEdgeId(e))
        xz, yz = zreal(p.getX()), zreal(p.getY())
        legs = []
        for (ax, ay), (bx, by) in zip(pts, pts[1:]):
            dx, dy = float(bx - ax), float(by - ay)
            L2 = dx * dx + dy * dy
            if L2 == 0:
                continue
            t = z3.Q(1, 10 ** 9) * (1 + L2)
            cross = (xz - ax) * dy - (yz - ay) * dx
            dot = (xz - ax) * dx + (yz - ay) * dy
            legs.append(z3.And(cross <= t, cross >= -t, dot >= -t, dot <= L2 + t))
        if not ctx.prove(z3.Or(legs), 'the matched point lies on the geometry of the edge it names', classes=cls):
            return False
        r = job['radius']
        d2 = (zreal(px) - xz) * (zreal(px) - xz) + (zreal(py) - yz) * (zreal(py) - yz)
        if not ctx.prove(d2 <= r * r * (1 + 1e-9), 'the matched point is no farther than the search radius from the observed position', classes=cls):
            return False
        total = sum(math.hypot(bx - ax, by - ay) for (ax, ay), (bx, by) in zip(pts, pts[1:]))
        t = z3.Q(1, 10 ** 9) * (1 + total)
        s = zreal(ds) + zreal(dt)
        if not ctx.prove(z3.And(s - total <= t, total - s <= t, zreal(ds) >= -t, zreal(dt) >= -t),
                         'the distances to the two end nodes along the edge add up to the edge length', classes=cls):
            return False
        return True

    def path(self, ctx, job):
        eng = ctx.eng
        px, py = self._fix(eng, None, job)
        cls = {'vertical_edge_line': self._vertical_class(job, px)}
        try:
            net, tr, before, states = self._run(job, px, py)
        except (core._Abort, core._Stop, core.Unsupported):
            raise
        except (Exception, SystemExit) as e:
            if isinstance(e, TypeError) and ('SReal' in str(e) or 'SInt' in str(e) or 'SBool' in str(e)):
                raise
            ctx.fail('mapOnNetwork raised %s' % type(e).__name__, classes=cls)
            return
        ctx.reach()
        T = len(before)
        if tr.size() != T or any(tr.getObs(i) is not before[i][0] for i in range(T)):
            ctx.fail('map-matching changed the observations of the track or their order', classes=cls)
            return
        for i in range(T):
            o = tr.getObs(i)
            if o.position is not before[i][1] or o.timestamp is not before[i][2] or o.position.getX() is not before[i][3] or o.position.getY() is not before[i][4]:
                ctx.fail('map-matching changed an observed position or timestamp', classes=cls)
                return
        if len(states) != T:
            ctx.fail('the candidate lists do not have one entry per observation', classes=cls)
            return
        ctx.observe(ncand=len(states[0]))
        S0 = states[0]
        if len(S0) == 1 and S0[0][1] == -1:
            if S0[0][0] is not before[0][1] or S0[0][2:] != (-1, -1):
                ctx.fail('the unmatched flag is malformed', classes=cls)
        else:
            for cand in S0:
                if cand[1] == -1:
                    ctx.fail('an unmatched flag is mixed with candidates', classes=cls)
                    return
                if not self._check_candidate(ctx, job, net, px, py, cand, cls):
                    return
        if job['kind'] == 'select':
            for i in range(T):
                inf = tr.getObsAnalyticalFeature('hmm_inference', i)
                if not any(inf is c for c in states[i]):
                    ctx.fail('the inferred state of an observation is not one of its candidates (nor the unmatched flag)', classes=cls)
                    return

    def concrete(self, job, inp):
        px, py = self._fix(None, inp, job)
        desc = 'fix (%r, %r) on network %s, index %s, radius %r' % (px, py, job['net'], job['idx'], job['radius'])
        try:
            net, tr, before, states = self._run(job, px, py)
        except core.Unsupported:
            return dict(violation=None, outputs={})
        except (Exception, SystemExit) as e:
            return dict(violation='%s: mapOnNetwork raised %s: %s' % (desc, type(e).__name__, e))
        out = dict(ncand=len(states[0]))
        T = len(before)
        if tr.size() != T or any(tr.getObs(i) is not before[i][0] or tr.getObs(i).position.getX() != before[i][3] or tr.getObs(i).position.getY() != before[i][4] for i in range(T)):
            return dict(violation='%s: the track was modified' % desc, outputs=out)
        lists = [states[0]]
        if job['kind'] == 'select':
            lists = [[tr.getObsAnalyticalFeature('hmm_inference', i)] for i in range(T)]
            for i in range(T):
                if not any(lists[i][0] is c for c in states[i]):
                    return dict(violation='%s: inferred state %r is not a candidate' % (desc, lists[i][0]), outputs=out)
            lists = lists[:1]
        for cand in lists[0]:
            p, e, ds, dt = cand
            if e == -1:
                continue
            if not (isinstance(e, int) and 0 <= e < len(NETS[job['net']])):
                return dict(violation='%s: candidate names edge %r' % (desc, e), outputs=out)
            pts = net_pts(job, net.getEdgeId(e))
            total = sum(math.hypot(bx - ax, by - ay) for (ax, ay), (bx, by) in zip(pts, pts[1:]))
            off = on_polyline_concrete(pts, p.getX(), p.getY())
            if off > 1e-6:
                return dict(violation='%s: matched point (%r, %r) is %.3g away from edge %r' % (desc, p.getX(), p.getY(), off, net.getEdgeId(e)), outputs=out)
            if math.hypot(px - p.getX(), py - p.getY()) > job['radius'] * (1 + 1e-9):
                return dict(violation='%s: matched point (%r, %r) is %r away, beyond the radius' % (desc, p.getX(), p.getY(), math.hypot(px - p.getX(), py - p.getY())), outputs=out)
            if abs(ds + dt - total) > 1e-6 * (1 + total) or ds < -1e-6 or dt < -1e-6:
                return dict(violation='%s: distances to the end nodes %r + %r do not add up to the edge length %r' % (desc, ds, dt, total), outputs=out)
        return dict(violation=None, outputs=out)


CHECK = C10()
