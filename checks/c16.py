"""C16 — simplification keeps the end points, only drops fixes, and honours its tolerance."""
import sys
import math
import z3
from symx.runner import Check
from symx import core
from symx.core import zreal
from symx.lifts import std_patches

GEO = 'tracklib.util.geometry'
SIM = 'tracklib.algo.simplification'
TRK = 'tracklib.core.track'
OPS = 'tracklib.core.operators'
UTL = 'tracklib.core.utils'
COORDS = 'tracklib.core.obs_coords'

CHORDS = [(5, 0), (0, 5), (3, 4), (-4, 3), (1, 1), (-2, -7), (0, 0), (0.001, 2)]


def qtol(scale=1):
    return z3.Q(1, 10 ** 9) * scale


def true_dist(px, py, ax, ay, bx, by):
    dx, dy = bx - ax, by - ay
    L2 = dx * dx + dy * dy
    lam = 0.0 if L2 == 0 else min(1.0, max(0.0, ((px - ax) * dx + (py - ay) * dy) / L2))
    return math.hypot(px - (ax + lam * dx), py - (ay + lam * dy))


def make_track(pts):
    from tracklib.core import Track, Obs, ENUCoords, ObsTime
    return Track([Obs(ENUCoords(x, y, 0.0), ObsTime.readUnixTime(float(10 * i))) for i, (x, y) in enumerate(pts)])


def long_shape(shape, n):
    """fixed long tracks for the scale probes (no three fixes exactly collinear, except in 'dups')"""
    pts = []
    for i in range(n):
        w = 0.5 * (((i * 7) % 5) - 2) / 2.0
        if shape == 'outback':          # two thirds of the fixes go out along a line, the last third comes half-way back
            k = (2 * n) // 3
            x = 100.0 * i / k if i <= k else 100.0 - 50.0 * (i - k) / (n - 1 - k)
            pts.append((x, w + (0.25 if i > k else 0.0)))
        elif shape == 'zigzag':
            pts.append((2.0 * i, 8.0 * (1 - abs(((i % 10) / 5.0) - 1)) + w))
        elif shape == 'loop':           # closed: first == last
            a = 2 * math.pi * (i % (n - 1)) / (n - 1)
            pts.append((50.0 * math.cos(a), 30.0 * math.sin(a)))
        else:                           # 'dups': consecutive duplicates and a revisited position
            j = i // 2
            pts.append((3.0 * (j % 20), 1.5 * (j // 20) + w * (j % 3)))
    return pts


def kind_pts(pts, vk):
    import numpy as np
    if vk == 'npfloat':
        return [(np.float64(x), np.float64(y)) for x, y in pts]
    if vk == 'int':
        return [(int(round(x)), int(round(y))) for x, y in pts]
    return pts


def edit_in_place(tr, pts):
    """what a caller may do between two simplifications of the same Track object: move a third of the fixes sideways (same number of fixes)"""
    out = list(pts)
    for i in range(len(pts) // 3, 2 * len(pts) // 3):
        x, y = pts[i][0] + 0.5, pts[i][1] + 40.0 + (i % 3)
        tr.getObs(i).position.setX(x)
        tr.getObs(i).position.setY(y)
        out[i] = (x, y)
    return out


def stamps(track):
    return [int(track.getObs(i).timestamp.toAbsTime()) // 10 for i in range(track.size())]


class C16(Check):
    id = 'C16'
    title = 'Simplification keeps the end points, only drops fixes, and honours its tolerance'
    functions = ['geometry.distance_to_segment', 'simplification.douglas_peucker', 'simplification.visvalingam', 'simplification.simplify', 'geometry.aire_visval', 'geometry.triangle_area',
                 'operators.Argmin', 'Track.removeObs', 'Track.__add__']
    stubs = ['geometry.math rebound (sqrt of constants = math.sqrt double, of symbolic terms a fresh root variable)', 'geometry.min / max rebound to fork-free If-terms',
             'dp_struct jobs only: simplification.distance_to_segment replaced by a table of free non-negative symbols d(i; a, b) with d = 0 when i is an end of the chord '
             '(a property of every point-segment distance, itself proved in the dist jobs)',
             'track/operators/utils float and int rebound to lifted classes']
    assumptions = ['compositional: (1) distance_to_segment is the true point-segment distance for catalogue chords %s (incl. the zero-length chord) under symbolic translation and query point; '
                   '(2) Douglas-Peucker structure with free distances: subsequence, both ends kept, every dropped fix closer than the tolerance to the chord of its kept neighbours; '
                   '(3) end-to-end link on 3 fixes with a concrete chord (incl. closed loop) and symbolic interior fix' % (CHORDS,),
                   'tolerance > 0 (documented); Visvalingam: symbolic coordinates in [-10, 10], incl. first == last']
    outside = ['optimal-simplification modes, squaring', 'n beyond the bound', 'chords outside the catalogue']
    budget = {'quick': 200, 'thorough': 1800}

    def bounds(self, tier):
        q = tier == 'quick'
        return dict(dist='%d catalogue chords x {free query, query at either end}' % len(CHORDS), dp_struct='n = 3..%d fixes, all distances and the tolerance symbolic' % (5 if q else 6),
                    dp_link='n = 3, %d chords incl. the closed loop' % len(CHORDS), visvalingam='n = 2..%d fixes, open and closed (first == last)' % (4 if q else 5))

    def jobs(self, tier, seed):
        q = tier == 'quick'
        js = []
        for c in CHORDS:
            for where in ('free', 'endA', 'endB'):
                js.append(dict(kind='dist', c=list(c), where=where))
            js.append(dict(kind='dp_link', c=list(c)))
        for n in range(3, (5 if q else 6) + 1):
            js.append(dict(kind='dp_struct', n=n))
        for n in range(2, (4 if q else 5) + 1):
            js.append(dict(kind='visv', n=n, closed=False))
            if n >= 3:
                js.append(dict(kind='visv', n=n, closed=True))
        # scale probes: long fixed tracks, symbolic tolerance in a narrow range
        for shape in ('outback', 'zigzag', 'loop', 'dups'):
            for n in ([70, 130] if q else [63, 64, 65, 129, 200, 300]):
                js.append(dict(kind='long', shape=shape, n=n, mode=1, lo=4, hi=6))
            for n in ([260] if q else [250, 251, 252, 253, 300, 520]):
                if shape in ('zigzag', 'loop') or not q:
                    js.append(dict(kind='long', shape=shape, n=n, mode=2, lo=0.001, hi=0.01))
            if not q:
                js.append(dict(kind='long', shape=shape, n=70, mode=2, lo=2, hi=3))
        # value-kind probes (coordinates held as numpy scalars / Python ints) and leftover-state probes (the same Track simplified, edited in place, simplified again)
        for shape in ('loop', 'dups', 'outback'):
            for vk in ('npfloat', 'int'):
                js.append(dict(kind='long', shape=shape, n=40, mode=1, lo=0.5, hi=2.0, vk=vk))
                js.append(dict(kind='long', shape=shape, n=40, mode=2, lo=0.001, hi=0.01, vk=vk))
            for mode, lo, hi in ((1, 4, 6), (2, 0.001, 0.01)):
                js.append(dict(kind='long', shape=shape, n=70, mode=mode, lo=lo, hi=hi, again=True))
        js.sort(key=lambda j: -(j.get('n', 0)))
        return js

    def patches(self, job):
        p = std_patches([GEO, TRK, OPS, UTL, COORDS], math=True, ints=True)
        p += [(GEO, 'min', core.sym_min), (GEO, 'max', core.sym_max)]
        return p

    # ------------------------------------------------------------------ inputs
    def _g(self, eng, inp):
        if inp is None:
            return lambda nm, lo, hi: eng.real(nm, lo, hi)
        return lambda nm, lo, hi: float(inp[nm])

    def _eps(self, eng, inp, hi=10):
        if inp is None:
            e = eng.real('eps', 0, hi)
            eng.assume(e.z > 0)
            return e
        return float(inp['eps'])

    def _run_simplify(self, tr, eps, mode):
        sim = sys.modules[SIM]
        return sim.simplify(tr, eps, mode, verbose=False)

    # ------------------------------------------------------------------ symbolic
    def path(self, ctx, job):
        eng = ctx.eng
        g = self._g(eng, None)
        kind = job['kind']
        try:
            if kind == 'dist':
                geo = sys.modules[GEO]
                dx, dy = job['c']
                ax, ay = g('ax', -100, 100), g('ay', -100, 100)
                bx, by = ax + dx, ay + dy
                if job['where'] == 'free':
                    px, py = g('px', -100, 100), g('py', -100, 100)
                elif job['where'] == 'endA':
                    px, py = ax, ay
                else:
                    px, py = bx, by
                d = geo.distance_to_segment(px, py, ax, ay, bx, by)
                ctx.observe(d=d)
                ctx.reach()
                L2 = float(dx) ** 2 + float(dy) ** 2
                pxz, pyz, axz, ayz = zreal(px), zreal(py), zreal(ax), zreal(ay)
                dot = (pxz - axz) * dx + (pyz - ayz) * dy
                pa2 = (pxz - axz) * (pxz - axz) + (pyz - ayz) * (pyz - ayz)
                pb2 = (pxz - axz - dx) * (pxz - axz - dx) + (pyz - ayz - dy) * (pyz - ayz - dy)
                if L2 == 0:
                    want = pa2
                else:
                    want = z3.If(dot <= 0, pa2, z3.If(dot >= L2, pb2, pa2 - dot * dot / L2))
                dz = zreal(d)
                t = qtol() * (1 + want)
                ctx.prove(z3.And(dz >= 0, dz * dz - want <= t, want - dz * dz <= t), 'distance_to_segment is the true point-segment distance')
                if job['where'] != 'free':
                    ctx.prove(z3.And(dz <= qtol(), dz >= 0), 'an end of the chord is at distance 0 from the chord')
                return
            if kind == 'dp_link':
                dx, dy = job['c']
                px, py = g('px', -50, 50), g('py', -50, 50)
                eps = self._eps(eng, None, 60)
                pts = [(1.0, 2.0), (px, py), (1.0 + dx, 2.0 + dy)]
                # boundary hints for the concolic fallback: the interior fix coincides with an end (repeated positions are named by the property)
                ctx.hints = [z3.And(px.z == 1 + dx, py.z == 2 + dy), z3.And(px.z == 1, py.z == 2)]
                tr = make_track(pts)
                obs = [tr.getObs(i) for i in range(3)]
                res = self._run_simplify(tr, eps, 1)
                ctx.reach()
                kept = [k for k in range(3) if any(res.getObs(i) is obs[k] for i in range(res.size()))]
                ctx.observe(size=res.size())
                if res.size() != len(kept) or [res.getObs(i) for i in range(res.size())] != [obs[k] for k in kept]:
                    ctx.fail('Douglas-Peucker result is not a subsequence of the input observations')
                    return
                if 0 not in kept or 2 not in kept:
                    ctx.fail('Douglas-Peucker dropped the first or the last observation')
                    return
                if 1 not in kept:
                    L2 = float(dx) ** 2 + float(dy) ** 2
                    pxz, pyz = zreal(px), zreal(py)
                    dot = (pxz - 1) * dx + (pyz - 2) * dy
                    pa2 = (pxz - 1) * (pxz - 1) + (pyz - 2) * (pyz - 2)
                    pb2 = (pxz - 1 - dx) * (pxz - 1 - dx) + (pyz - 2 - dy) * (pyz - 2 - dy)
                    want = pa2 if L2 == 0 else z3.If(dot <= 0, pa2, z3.If(dot >= L2, pb2, pa2 - dot * dot / L2))
                    ctx.prove(want <= zreal(eps) * zreal(eps) + qtol() * (1 + want), 'a dropped fix lies within the tolerance of the simplified polyline')
                return
            if kind == 'dp_struct':
                n = job['n']
                eps = self._eps(eng, None)
                table = {}

                def dstub(x0, y0, xa, ya, xb, yb):
                    i, a, b = int(x0), int(xa), int(xb)
                    if i == a or i == b:
                        return 0.0
                    key = (i, a, b)
                    if key not in table:
                        table[key] = eng.real('d%d_%d_%d' % key, 0, 10)
                    return table[key]
                tr = make_track([(float(i), 0.0) for i in range(n)])
                obs = [tr.getObs(i) for i in range(n)]
                sim = sys.modules[SIM]
                old = sim.distance_to_segment
                sim.distance_to_segment = dstub
                try:
                    res = self._run_simplify(tr, eps, 1)
                finally:
                    sim.distance_to_segment = old
                if not table:
                    raise core.Unsupported('douglas_peucker no longer measures distances through simplification.distance_to_segment: the structural harness does not apply')
                ctx.reach()
                out = [res.getObs(i) for i in range(res.size())]
                kept = [k for k in range(n) if any(o is obs[k] for o in out)]
                ctx.observe(kept=list(kept))
                if len(out) != len(kept) or any(o is not obs[k] for o, k in zip(out, kept)):
                    ctx.fail('Douglas-Peucker result is not a subsequence of the input observations (order or duplicates)')
                    return
                if not kept or kept[0] != 0 or kept[-1] != n - 1:
                    ctx.fail('Douglas-Peucker dropped the first or the last observation')
                    return
                for a, b in zip(kept, kept[1:]):
                    for i in range(a + 1, b):
                        key = (i, a, b)
                        if key not in table:
                            ctx.fail('a fix was dropped without being compared with the chord of its kept neighbours')
                            return
                        if not ctx.prove(table[key].z < eps.z, 'a dropped fix is closer than the tolerance to the chord of its kept neighbours'):
                            return
                return
            if kind == 'long':
                n = job['n']
                pts = kind_pts(long_shape(job['shape'], n), job.get('vk'))
                eps = eng.real('eps', job['lo'], job['hi'])
                tr = make_track(pts)
                obs = [tr.getObs(i) for i in range(n)]
                if job.get('again'):
                    self._run_simplify(tr, eps, job['mode'])
                    pts = edit_in_place(tr, pts)
                res = self._run_simplify(tr, eps, job['mode'])
                ctx.reach()
                st = stamps(res)
                ctx.observe(size=len(st))
                name = 'Douglas-Peucker' if job['mode'] == 1 else 'Visvalingam'
                if any(a >= b for a, b in zip(st, st[1:])) or any(t < 0 or t >= n for t in st):
                    ctx.fail('%s result on a long track is not a subsequence of the input observations in their original order' % name)
                    return
                if not st or st[0] != 0 or st[-1] != n - 1:
                    ctx.fail('%s dropped the first or the last observation of a long track' % name)
                    return
                if any(res.getObs(i).position.getX() != pts[t][0] or res.getObs(i).position.getY() != pts[t][1] for i, t in enumerate(st)):
                    ctx.fail('%s changed a position' % name)
                    return
                if job['mode'] == 1:
                    worst = 0.0
                    for i in range(n):
                        if i not in st:
                            worst = max(worst, min(true_dist(pts[i][0], pts[i][1], pts[a][0], pts[a][1], pts[b][0], pts[b][1]) for a, b in zip(st, st[1:])))
                    ctx.prove(z3.RealVal(repr(worst)) <= eps.z * (1 + qtol()) + qtol(), 'on a long track every input fix lies within the tolerance of the simplified polyline')
                return
            if kind == 'visv':
                n = job['n']
                pts = [(g('x%d' % i, -10, 10), g('y%d' % i, -10, 10)) for i in range(n)]
                if job['closed']:
                    pts[-1] = pts[0]
                eps = self._eps(eng, None)
                tr = make_track(pts)
                res = self._run_simplify(tr, eps, 2)
                ctx.reach()
                st = stamps(res)
                ctx.observe(kept=list(st))
                if any(a >= b for a, b in zip(st, st[1:])) or any(s < 0 or s >= n for s in st):
                    ctx.fail('Visvalingam result is not a subsequence of the input observations in their original order')
                    return
                if not st or st[0] != 0 or st[-1] != n - 1:
                    ctx.fail('Visvalingam dropped the first or the last observation')
                    return
                for i, s in enumerate(st):
                    o = res.getObs(i)
                    if o.position.getX() is not pts[s][0] and not (not core.is_sym(pts[s][0]) and o.position.getX() == pts[s][0]):
                        ctx.fail('Visvalingam changed a position')
                        return
                if res.getListAnalyticalFeatures():
                    ctx.fail('Visvalingam left its working feature on the result')
                return
        except (core._Abort, core._Stop, core.Unsupported):
            raise
        except Exception as e:
            if isinstance(e, TypeError) and ('SReal' in str(e) or 'SInt' in str(e)):
                raise
            ctx.fail({'dist': 'distance_to_segment', 'dp_link': 'Douglas-Peucker', 'dp_struct': 'Douglas-Peucker', 'visv': 'Visvalingam', 'long': 'simplification of a long track'}[kind] + ' raised %s' % type(e).__name__)

    # ------------------------------------------------------------------ concrete replay
    def concrete(self, job, inp):
        kind = job['kind']
        g = self._g(None, inp)
        try:
            if kind == 'dist':
                geo = sys.modules[GEO]
                dx, dy = job['c']
                ax, ay = g('ax', 0, 0), g('ay', 0, 0)
                bx, by = ax + dx, ay + dy
                px, py = (g('px', 0, 0), g('py', 0, 0)) if job['where'] == 'free' else ((ax, ay) if job['where'] == 'endA' else (bx, by))
                d = geo.distance_to_segment(px, py, ax, ay, bx, by)
                want = true_dist(px, py, ax, ay, bx, by)
                if not (abs(d - want) <= 1e-6 * (1 + want)):
                    return dict(violation='distance_to_segment(%r, %r; %r) = %r, true distance %r' % (px, py, (ax, ay, bx, by), d, want), outputs=dict(d=d))
                return dict(violation=None, outputs=dict(d=float(d)))
            if kind == 'dp_link':
                dx, dy = job['c']
                px, py, eps = g('px', 0, 0), g('py', 0, 0), float(inp['eps'])
                pts = [(1.0, 2.0), (px, py), (1.0 + dx, 2.0 + dy)]
                tr = make_track(pts)
                res = self._run_simplify(tr, eps, 1)
                st = stamps(res)
                if any(a >= b for a, b in zip(st, st[1:])) or not st or st[0] != 0 or st[-1] != 2:
                    return dict(violation='Douglas-Peucker(%r, eps=%r) kept observations %r' % (pts, eps, st), outputs=dict(size=res.size()))
                if 1 not in st and true_dist(px, py, 1.0, 2.0, 1.0 + dx, 2.0 + dy) > eps * (1 + 1e-9) + 1e-9:
                    return dict(violation='Douglas-Peucker(%r, eps=%r) dropped a fix %r away from the simplified line' % (pts, eps, true_dist(px, py, 1.0, 2.0, 1.0 + dx, 2.0 + dy)), outputs=dict(size=res.size()))
                return dict(violation=None, outputs=dict(size=res.size()))
            if kind == 'dp_struct':
                n = job['n']
                eps = float(inp['eps'])
                used = {}

                def dstub(x0, y0, xa, ya, xb, yb):
                    i, a, b = int(x0), int(xa), int(xb)
                    if i == a or i == b:
                        return 0.0
                    used[(i, a, b)] = float(inp.get('d%d_%d_%d' % (i, a, b), 0.0))
                    return used[(i, a, b)]
                tr = make_track([(float(i), 0.0) for i in range(n)])
                sim = sys.modules[SIM]
                old = sim.distance_to_segment
                sim.distance_to_segment = dstub
                try:
                    res = self._run_simplify(tr, eps, 1)
                finally:
                    sim.distance_to_segment = old
                st = stamps(res)
                out = dict(kept=list(st))
                if not used:
                    return dict(violation=None, outputs=out)
                if any(a >= b for a, b in zip(st, st[1:])) or not st or st[0] != 0 or st[-1] != n - 1:
                    return dict(violation='Douglas-Peucker on %d fixes (distances %r, eps %r) kept %r' % (n, used, eps, st), outputs=out)
                for a, b in zip(st, st[1:]):
                    for i in range(a + 1, b):
                        if (i, a, b) not in used or used[(i, a, b)] >= eps:
                            return dict(violation='fix %d dropped between kept %d and %d although its distance to that chord is %r (eps %r)' % (i, a, b, used.get((i, a, b)), eps), outputs=out)
                return dict(violation=None, outputs=out)
            if kind == 'long':
                n = job['n']
                pts = kind_pts(long_shape(job['shape'], n), job.get('vk'))
                eps = float(inp['eps'])
                tr = make_track(pts)
                if job.get('again'):
                    self._run_simplify(tr, eps, job['mode'])
                    pts = edit_in_place(tr, pts)
                res = self._run_simplify(tr, eps, job['mode'])
                st = stamps(res)
                out = dict(size=len(st))
                name = 'Douglas-Peucker' if job['mode'] == 1 else 'Visvalingam'
                if any(a >= b for a, b in zip(st, st[1:])) or not st or st[0] != 0 or st[-1] != n - 1 or any(t < 0 or t >= n for t in st):
                    bad = [t for t, u in zip(st, st[1:]) if t >= u]
                    return dict(violation='%s on the %d-fix %s track (tolerance %r) returned observations that are not a subsequence with both ends (size %d, first %r, last %r, repeated / out of order at %r)'
                                          % (name, n, job['shape'], eps, len(st), st[:1], st[-1:], bad[:5]), outputs=out)
                if job['mode'] == 1:
                    for i in range(n):
                        if i not in st:
                            d = min(true_dist(pts[i][0], pts[i][1], pts[a][0], pts[a][1], pts[b][0], pts[b][1]) for a, b in zip(st, st[1:]))
                            if d > eps * (1 + 1e-9) + 1e-9:
                                return dict(violation='Douglas-Peucker on the %d-fix %s track, tolerance %r: fix %d lies %r away from the simplified polyline (kept %d fixes)' % (n, job['shape'], eps, i, d, len(st)), outputs=out)
                return dict(violation=None, outputs=out)
            if kind == 'visv':
                n = job['n']
                pts = [(g('x%d' % i, 0, 0), g('y%d' % i, 0, 0)) for i in range(n)]
                if job['closed']:
                    pts[-1] = pts[0]
                eps = float(inp['eps'])
                tr = make_track(pts)
                res = self._run_simplify(tr, eps, 2)
                st = stamps(res)
                out = dict(kept=list(st))
                if any(a >= b for a, b in zip(st, st[1:])) or not st or st[0] != 0 or st[-1] != n - 1:
                    return dict(violation='Visvalingam(%r, tolerance %r) kept observations %r' % (pts, eps, st), outputs=out)
                return dict(violation=None, outputs=out)
        except Exception as e:
            return dict(violation='%s raised %s: %s (inputs %r)' % (kind, type(e).__name__, e, inp))


CHECK = C16()
