"""C01 — the feature table stays aligned with the observations under any operation history.

Decided by an inductive step: pre-state = any table satisfying the representation invariant (an ordered selection of names,
columns 0..k-1) with symbolic values; one operation; post-state compared with a dict model and the invariant re-established.
Histories from the empty table (bounded depth) confirm that the directly built pre-states are the API-reachable ones."""
import sys
import itertools
import z3
from symx.runner import Check
from symx import core
from symx.lifts import std_patches
from checks import aflib
from checks.aflib import isnan, NAN

TRK = 'tracklib.core.track'
UTL = 'tracklib.core.utils'
OPS = 'tracklib.core.operators'
NAMES = ['a', 'b', 'c']


UVOID = {'D': 'DIFFERENTIATOR', 'I': 'INTEGRATOR', 'NEG': 'INVERTER'}
SVOID = {'SMUL': 'SCALAR_MULTIPLIER', 'SADD': 'SCALAR_ADDER', 'SSUB': 'SCALAR_SUBSTRACTER', 'SRSUB': 'SCALAR_REV_SUBSTRACTER'}
BVOID = {'ADD': 'ADDER', 'SUB': 'SUBSTRACTER', 'MUL': 'MULTIPLIER'}


def tables():
    out = [()]
    for k in (1, 2, 3):
        out += list(itertools.permutations(NAMES, k))
    return out


def ops_for(table):
    """operation instances applicable to a pre-state table (documented preconditions: operands exist)"""
    have = list(table)
    ops = []
    for nm in NAMES:
        for form in ('scalar', 'list'):
            ops.append(['create', nm, form])
            ops.append(['set', nm, form])
        if nm in have:
            ops.append(['update', nm, 'scalar'])
            ops.append(['update', nm, 'list'])
            ops.append(['remove', nm])
            ops.append(['del', nm])
            ops.append(['setobs', nm])
    for s in have:
        for d in NAMES:
            for which in UVOID:
                ops.append(['uvoid', s, d, which])   # unary void operator s -> d (d may exist, may be s)
            for which in SVOID:
                ops.append(['svoid', s, d, which])   # scalar void operator (s, k) -> d
        ops.append(['unary', s])                     # SUM (non-void: the track must not change)
        for s2 in have:
            for d in NAMES:
                for which in BVOID:
                    ops.append(['bvoid', s, s2, d, which])
    # algebraic expressions
    for d in NAMES + ['x', 'y', 'z']:
        for s in have:
            ops.append(['expr', '%s=%s' % (d, s)])
            ops.append(['expr', '%s=%s*2' % (d, s)])
            ops.append(['expr', '%s=D{%s}' % (d, s)])
            for s2 in have:
                if s2 != s:
                    ops.append(['expr', '%s=%s+%s*2' % (d, s, s2)])
        ops.append(['expr', '%s=2+1' % d])
        ops.append(['expr', '%s=x+1' % d])
    for s in have:
        ops.append(['expr', '%s+1' % s])
        ops.append(['expr', 'SUM{%s}*%s' % (s, s)])
        ops.append(['expr', '%s+=1' % s])
        for s2 in have:
            if s2 != s:
                ops.append(['expr', '(%s-%s)*%s' % (s, s2, s)])
    ops.append(['expr', 'x+y'])
    # scale probe: one long flat expression (more intermediate results than a short one needs)
    if have:
        terms = [have[i % len(have)] for i in range(12)]
        ops.append(['expr', '+'.join(terms)])
        ops.append(['expr', '%s=%s' % (have[-1], '+'.join(terms))])
        ops.append(['expr', '%s=%s' % ([x for x in NAMES if x not in have][0] if len(have) < len(NAMES) else have[0], '+'.join(terms))])
    return ops


class Model:
    """reference semantics of one operation on a dict name -> list of values (z3 terms or floats)"""

    def __init__(self, n, feats, xyz, A):
        self.n, self.f, self.xyz, self.A = n, dict(feats), dict(xyz), A
        self.order = list(feats)

    def get(self, name):
        if name in ('x', 'y', 'z'):
            return list(self.xyz[name])
        return list(self.f[name])

    def put(self, name, vals):
        if name in ('x', 'y', 'z'):
            self.xyz[name] = list(vals)
        else:
            self.f[name] = list(vals)


def nadd(p, q):
    return NAN if (isnan(p) or isnan(q)) else p + q


def nsub(p, q):
    return NAN if (isnan(p) or isnan(q)) else p - q


def nmul(p, q):
    return NAN if (isnan(p) or isnan(q)) else p * q


def nsum(v, zero):
    """SUM skips NaN values (documented)"""
    t = zero
    for x in v:
        if not isnan(x):
            t = t + x
    return t


def apply_model(m, op, fresh, A):
    """returns expected return value (or None)"""
    n = m.n
    kind = op[0]
    if kind in ('create', 'set', 'update'):
        nm, form = op[1], op[2]
        vals = list(fresh['list']) if form == 'list' else [fresh['scalar']] * n
        if kind == 'create' and nm in m.f:
            return None                      # documented: creating an existing feature is a no-op
        m.put(nm, [A.lift(v) for v in vals])
        return None
    if kind in ('remove', 'del'):
        del m.f[op[1]]
        return None
    if kind == 'setobs':
        v = m.get(op[1])
        v[fresh['i']] = A.lift(fresh['scalar'])
        m.put(op[1], v)
        return None
    if kind == 'uvoid':
        v = m.get(op[1])
        which = op[3] if len(op) > 3 else 'D'
        if which == 'D':
            r = [NAN] + [nsub(v[i], v[i - 1]) for i in range(1, n)]
        elif which == 'I':
            r = [A.const(0.0)]
            for i in range(1, n):
                r.append(nadd(r[-1], v[i]))
        else:
            r = [nsub(A.const(0.0), x) for x in v]
        m.put(op[2], r)
        return None
    if kind == 'svoid':
        v = m.get(op[1])
        k = A.lift(fresh['k'])
        which = op[3] if len(op) > 3 else 'SMUL'
        f = {'SMUL': lambda x: nmul(x, k), 'SADD': lambda x: nadd(x, k), 'SSUB': lambda x: nsub(x, k), 'SRSUB': lambda x: nsub(k, x)}[which]
        m.put(op[2], [f(x) for x in v])
        return None
    if kind == 'bvoid':
        v1, v2 = m.get(op[1]), m.get(op[2])
        which = op[4] if len(op) > 4 else 'ADD'
        f = {'ADD': nadd, 'SUB': nsub, 'MUL': nmul}[which]
        m.put(op[3], [f(p, q) for p, q in zip(v1, v2)])
        return None
    if kind == 'unary':
        v = m.get(op[1])
        return ('scalar', nsum(v, A.const(0.0)))
    if kind == 'expr':
        e = op[1]
        if '+=' in e:
            d, rhs = e.split('+=')
            e = '%s=%s+%s' % (d, d, rhs)
        tgt, rhs = (e.split('=') + [None])[:2] if '=' in e else (None, e)
        val = expr_value(rhs, m, A)
        if tgt is None:
            return ('list', val)
        m.put(tgt, val)
        return None
    raise ValueError(op)


def expr_value(rhs, m, A):
    """the few expression templates of ops_for, evaluated by structure"""
    n = m.n
    two, one = A.const(2.0), A.const(1.0)
    env = lambda nm: m.get(nm)
    if rhs.startswith('D{'):
        v = env(rhs[2:-1])
        return [NAN] + [nsub(v[i], v[i - 1]) for i in range(1, n)]
    if rhs.startswith('SUM{'):
        s = rhs[4:rhs.index('}')]
        v = env(s)
        t = nsum(v, A.const(0.0))
        w = env(rhs.split('*')[1])
        return [nmul(t, x) for x in w]
    if rhs.startswith('('):
        inner, s3 = rhs[1:].split(')*')
        s1, s2 = inner.split('-')
        return [nmul(nsub(p, q), r) for p, q, r in zip(env(s1), env(s2), env(s3))]
    if rhs.count('+') >= 5 and all(t in NAMES for t in rhs.split('+')):
        cols = [env(t) for t in rhs.split('+')]
        acc = cols[0]
        for c in cols[1:]:
            acc = [nadd(p, q) for p, q in zip(acc, c)]
        return acc
    if rhs == '2+1':
        return [A.const(3.0)] * n
    if rhs == 'x+y':
        return [nadd(p, q) for p, q in zip(env('x'), env('y'))]
    if rhs.endswith('*2') and '+' in rhs:
        s1, s2 = rhs[:-2].split('+')
        return [nadd(p, nmul(q, two)) for p, q in zip(env(s1), env(s2))]
    if rhs.endswith('*2'):
        return [nmul(p, two) for p in env(rhs[:-2])]
    if rhs.endswith('+1'):
        return [nadd(p, one) for p in env(rhs[:-2])]
    return env(rhs)


def apply_real(tr, op, fresh):
    Operator = sys.modules[OPS].Operator
    kind = op[0]
    n = tr.size()
    if kind == 'create':
        tr.createAnalyticalFeature(op[1], list(fresh['list']) if op[2] == 'list' else fresh['scalar'])
    elif kind == 'set':
        tr[op[1]] = list(fresh['list']) if op[2] == 'list' else fresh['scalar']
    elif kind == 'update':
        tr.updateAnalyticalFeature(op[1], list(fresh['list']) if op[2] == 'list' else fresh['scalar'])
    elif kind == 'remove':
        tr.removeAnalyticalFeature(op[1])
    elif kind == 'del':
        tr[op[1]] = '#DELETE'
    elif kind == 'setobs':
        tr[op[1], fresh['i']] = fresh['scalar']
    elif kind == 'uvoid':
        return tr.operate(getattr(Operator, UVOID[op[3] if len(op) > 3 else 'D']), op[1], op[2])
    elif kind == 'svoid':
        return tr.operate(getattr(Operator, SVOID[op[3] if len(op) > 3 else 'SMUL']), op[1], fresh['k'], op[2])
    elif kind == 'bvoid':
        return tr.operate(getattr(Operator, BVOID[op[4] if len(op) > 4 else 'ADD']), op[1], op[2], op[3])
    elif kind == 'unary':
        return tr.operate(Operator.SUM, op[1])
    elif kind == 'expr':
        return tr.operate(op[1])
    return None


def kind_value(vk):
    import numpy as np
    return {'str2': 'ab', 'str7': 'walking', 'bytes': b'xyz', 'tuple': (1.0, 2.0), 'none': None, 'bool': True, 'npfloat': np.float64(1.5), 'npint': np.int64(4), 'int': 3,
            'empty': '', 'dict': {'k': 1}}[vk]


KIND_VALUES = ['str2', 'str7', 'bytes', 'tuple', 'none', 'bool', 'npfloat', 'npint', 'int', 'empty', 'dict']


class C01(Check):
    id = 'C01'
    title = 'Feature table stays aligned with observations under any operation history'
    functions = ['Track.createAnalyticalFeature', 'Track.updateAnalyticalFeature', 'Track.removeAnalyticalFeature', 'Track.__setitem__', 'Track.setObsAnalyticalFeature',
                 'Track.operate (operator objects and expressions)', 'Track.__applyOperation', 'utils.addListToAF', 'operators.Differentiator/Integrator/Inverter, ScalarMuliplier/ScalarAdder/ScalarSubstracter/ScalarRevSubstracter, Adder/Substracter/Multiplier, Sum']
    stubs = ['track.float/int, utils.float, operators.float rebound to lifted classes', 'proxies hash by identity inside the evaluator']
    assumptions = ['representation invariant (inductive hypothesis): listed names map one-to-one onto columns 0..k-1, every observation has k slots, no listed name starts with #',
                   'pre-states are built through createAnalyticalFeature in the order of an arbitrary ordered selection of names from {a, b, c}; '
                   'the bounded histories from the empty table check that every API-reachable table is of that form',
                   'feature values, coordinates, new values and the scalar operand are symbolic reals in [-8, 8]; timestamps concrete',
                   'operations are applied with existing operand names (documented precondition); creating an existing name is a documented no-op']
    outside = ['names outside the alphabet {a, b, c} and the coordinate targets x, y, z', 'n > 3', 'features holding non-numeric objects beyond the scalar-kind probes (text, bytes, tuple, None, bool, numpy scalars, dict written as one scalar)', 'addAnalyticalFeature(function)', 'NaN inputs (see C02)']
    budget = {'quick': 150, 'thorough': 1800}

    def bounds(self, tier):
        q = tier == 'quick'
        return dict(step='all 16 ordered tables over {a,b,c} x every applicable operation instance (%d in total) for n = %s observations'
                         % (sum(len(ops_for(t)) for t in tables()), '2' if q else '1, 2, 3'),
                    histories='all sequences of depth %d from the empty table over a 14-operation alphabet (create/set/remove/setobs/operator/expressions with colliding names), invariant and model checked after every step' % (2 if q else 3))

    HIST_OPS = [['create', 'a', 'list'], ['create', 'b', 'scalar'], ['set', 'a', 'scalar'], ['set', 'c', 'list'], ['remove', 'a'], ['del', 'b'], ['remove', 'c'],
                ['bvoid', 'a', 'b', 'c'], ['uvoid', 'b', 'a'], ['expr', 'b=a*2'], ['expr', 'a=a+b*2'], ['expr', 'a+1'], ['expr', 'x=a'], ['expr', 'c=2+1']]

    def jobs(self, tier, seed):
        q = tier == 'quick'
        js = []
        for n in ([2] if q else [1, 2, 3]):
            for t in tables():
                for op in ops_for(t):
                    js.append(dict(kind='step', n=n, table=list(t), op=op))
        # scale probes: long tracks (300 / 1000 observations; values concrete except two symbolic entries per vector)
        LONG_OPS = [['create', 'c', 'list'], ['create', 'c', 'scalar'], ['set', 'c', 'list'], ['set', 'a', 'list'], ['update', 'a', 'list'], ['update', 'b', 'scalar'],
                    ['setobs', 'a'], ['remove', 'a'], ['del', 'b'], ['uvoid', 'a', 'c', 'D'], ['uvoid', 'b', 'b', 'I'], ['svoid', 'a', 'a', 'SMUL'], ['bvoid', 'a', 'b', 'c', 'ADD'],
                    ['unary', 'a'], ['expr', 'c=a+b*2'], ['expr', 'a=D{b}'], ['expr', 'SUM{a}*b'], ['expr', 'x=a'], ['expr', 'a+=1']]
        for n in ([300] if q else [129, 300, 1000]):
            for op in LONG_OPS:
                js.append(dict(kind='step', n=n, table=['a', 'b'], op=op, long=True))
        # value-kind probes: a scalar of another kind than float (text, tuple, None, bool, numpy scalar, int) is broadcast like any scalar
        for n in ((2, 5) if q else (1, 2, 3, 5, 8)):
            for api in ('create', 'set', 'update'):
                for vk in sorted(KIND_VALUES):
                    js.append(dict(kind='kinds', n=n, api=api, vk=vk))
        d = 2 if q else 3
        for first in range(len(self.HIST_OPS)):
            js.append(dict(kind='hist', n=2, first=first, depth=d))
        return js

    def patches(self, job):
        return std_patches([TRK, UTL, OPS], math=True, ints=True)

    @staticmethod
    def _long_value(nm, n):
        """long-track probes: every entry is a fixed number except entries 1 and n-2 of each vector"""
        import re
        mt = re.match(r'^([a-z]+)_?(\d+)$', nm)
        if not mt or int(mt.group(2)) in (1, n - 2):
            return None
        return float((int(mt.group(2)) * 7 + sum(map(ord, mt.group(1)))) % 13 - 6)

    def _fresh(self, eng, inp, n, tag='', long=False):
        g0 = (lambda nm: eng.real(nm, -8, 8)) if inp is None else (lambda nm: float(inp[nm]))
        g = (lambda nm: g0(nm) if self._long_value(nm, n) is None else self._long_value(nm, n)) if long else g0
        return dict(scalar=g('s' + tag), list=[g('l%s_%d' % (tag, i)) for i in range(n)], k=g('k' + tag), i=n - 1)

    def _check_state(self, tr, m, A, ctx, prove):
        """post-state vs model; returns violation message or None"""
        bad = aflib.table_invariant(tr)
        if bad:
            return bad
        names = tr.getListAnalyticalFeatures()
        if sorted(names) != sorted(m.f):
            return 'the track lists %r, the operations performed leave %r' % (sorted(names), sorted(m.f))
        n = tr.size()
        for nm in list(m.f) + ['x', 'y', 'z']:
            got = tr.getAnalyticalFeature(nm) if nm not in ('x', 'y', 'z') else {'x': tr.getX, 'y': tr.getY, 'z': tr.getZ}[nm]()
            want = m.get(nm)
            if len(got) != n:
                return 'reading %s does not give one value per observation' % nm
            for i in range(n):
                g, w = got[i], want[i]
                if not (core.is_sym(g) or isinstance(g, (int, float))):
                    return 'reading %s[%d] gives a %s, a number was last written' % (nm, i, type(g).__name__)
                if isnan(g) or isnan(w):
                    if not (isnan(g) and isnan(w)):
                        return 'reading %s[%d] gives %s, last written %s' % (nm, i, 'NaN' if isnan(g) else 'a number', 'NaN' if isnan(w) else 'a number')
                    continue
                if not prove(g, w, nm, i):
                    return 'STOP' if prove.sym else 'reading %s[%d] gives %r, the value last written under that name is %r' % (nm, i, g, w)
            # single-observation reads agree with vector reads
            if nm not in ('x', 'y', 'z'):
                for i in range(n):
                    if not aflib.same_value(tr[nm, i], got[i]):
                        return 'track[%r, %d] differs from track[%r][%d]' % (nm, i, nm, i)
        return None

    def _run(self, job, eng, inp, ctx=None):
        sym = inp is None
        A = aflib.ZAlg() if sym else aflib.FAlg()
        n = job['n']
        g0 = (lambda nm: eng.real(nm, -8, 8)) if sym else (lambda nm: float(inp[nm]))
        long = bool(job.get('long'))
        g = (lambda nm: g0(nm) if self._long_value(nm, n) is None else self._long_value(nm, n)) if long else g0
        xs, ys, zs = [g('x%d' % i) for i in range(n)], [g('y%d' % i) for i in range(n)], [g('z%d' % i) for i in range(n)]
        tr = aflib.make_track(n, xs, ys, zs)
        ts = [tr.getObs(i).timestamp for i in range(n)]
        obs = [tr.getObs(i) for i in range(n)]

        def prove(gv, w, nm, i):
            if sym:
                return ctx.prove(core.zreal(gv) == w, 'a feature read by name returns the values last written under that name')
            return abs(float(gv) - w) <= 1e-9 * max(1.0, abs(w))
        prove.sym = sym

        if job['kind'] == 'kinds':
            # table [a (symbolic list), b (symbolic list)]; one scalar write of another kind into a / c
            feats = {nm: [g('%s%d' % (nm, i)) for i in range(n)] for nm in ('a', 'b')}
            for nm in ('a', 'b'):
                tr.createAnalyticalFeature(nm, list(feats[nm]))
            v = kind_value(job['vk'])
            tgt = 'c' if job['api'] == 'create' else 'b'
            try:
                if job['api'] == 'create':
                    tr.createAnalyticalFeature(tgt, v)
                elif job['api'] == 'set':
                    tr[tgt] = v
                else:
                    tr.updateAnalyticalFeature(tgt, v)
            except (core._Abort, core._Stop, core.Unsupported):
                raise
            except Exception as e:
                return '%s of a scalar of kind %s raised %s' % (job['api'], job['vk'], type(e).__name__), {}
            if sym:
                ctx.reach()
            bad = aflib.table_invariant(tr)
            if bad:
                return 'after writing a scalar of kind %s: %s' % (job['vk'], bad), {}
            want_names = ['a', 'b'] + (['c'] if tgt == 'c' else [])
            if sorted(tr.getListAnalyticalFeatures()) != want_names:
                return 'after writing a scalar of kind %s the track lists %r' % (job['vk'], tr.getListAnalyticalFeatures()), {}
            for i in range(n):
                got = tr.getObsAnalyticalFeature(tgt, i)
                if not (got is v or (type(got) is type(v) and got == v)):
                    return 'a scalar of kind %s written to a feature reads back as %r at observation %d (a scalar is broadcast to every observation)' % (job['vk'], got, i), {}
                if tr.getObsAnalyticalFeature('a', i) is not feats['a'][i] and tr.getObsAnalyticalFeature('a', i) != feats['a'][i]:
                    return 'writing a scalar of kind %s changed another feature' % job['vk'], {}
            return None, {}
        if job['kind'] == 'step':
            table = job['table']
            feats = {}
            for nm in table:
                feats[nm] = [g('%s%d' % (nm, i)) for i in range(n)]
                tr.createAnalyticalFeature(nm, list(feats[nm]))
            m = Model(n, {k: [A.lift(v) for v in vs] for k, vs in feats.items()}, dict(x=[A.lift(v) for v in xs], y=[A.lift(v) for v in ys], z=[A.lift(v) for v in zs]), A)
            seqs = [[job['op']]]
        else:
            m = Model(n, {}, dict(x=[A.lift(v) for v in xs], y=[A.lift(v) for v in ys], z=[A.lift(v) for v in zs]), A)
            rest = itertools.product(range(len(self.HIST_OPS)), repeat=job['depth'] - 1)
            seqs = None
        out = {}

        def do(op, tag):
            """apply one op to track and model; returns violation or None"""
            fresh = self._fresh(eng, inp, n, tag, long)
            try:
                ret = apply_real(tr, op, fresh)
            except (core._Abort, core._Stop, core.Unsupported):
                raise
            except (Exception, SystemExit) as e:
                if isinstance(e, TypeError) and ('SReal' in str(e) or 'SInt' in str(e) or 'SBool' in str(e)):
                    raise
                return '%s raised %s' % (op[0] if op[0] != 'expr' else "operate('%s')" % op[1], type(e).__name__)
            want = apply_model(m, op, fresh, A)
            if want is not None:
                if want[0] == 'scalar':
                    if core.is_sym(ret) or isinstance(ret, (int, float)):
                        if not prove(ret, want[1], 'return', 0):
                            return 'STOP' if sym else 'returned %r, expected %r' % (ret, want[1])
                    else:
                        return 'operator did not return a number'
                else:
                    if not isinstance(ret, list) or len(ret) != n:
                        return 'expression without = did not return one value per observation'
                    for i in range(n):
                        if isnan(want[1][i]) or isnan(ret[i]):
                            if not (isnan(want[1][i]) and isnan(ret[i])):
                                return 'expression value NaN mismatch'
                        elif not prove(ret[i], want[1][i], 'return', i):
                            return 'STOP' if sym else 'expression returned %r at %d, expected %r' % (ret[i], i, want[1][i])
            v = self._check_state(tr, m, A, ctx, prove)
            if v:
                return v
            now = [tr.getObs(i) for i in range(tr.size())]
            if len(now) != n or any(p is not q for p, q in zip(now, obs)):
                return 'the observation list changed'
            if any(tr.getObs(i).timestamp is not ts[i] for i in range(n)):
                return 'a timestamp changed as a side effect'
            return None

        if job['kind'] == 'step':
            v = do(job['op'], '')
            if sym:
                ctx.reach()
            if not v:
                for nm in tr.getListAnalyticalFeatures():
                    out['f_' + nm] = tr.getAnalyticalFeature(nm)
                out['x'] = tr.getX()
            return (None if v == 'STOP' else v), out
        # histories: the first op is fixed by the job, the rest enumerated; each sequence restarts from a fresh track
        for tail in rest:
            seq = [job['first']] + list(tail)
            tr = aflib.make_track(n, xs, ys, zs)
            ts = [tr.getObs(i).timestamp for i in range(n)]
            obs = [tr.getObs(i) for i in range(n)]
            m = Model(n, {}, dict(x=[A.lift(v) for v in xs], y=[A.lift(v) for v in ys], z=[A.lift(v) for v in zs]), A)
            for step, oi in enumerate(seq):
                op = self.HIST_OPS[oi]
                need = [a for a in op[1:] if isinstance(a, str) and a in NAMES] if op[0] in ('remove', 'del', 'uvoid', 'bvoid', 'setobs', 'update') else []
                if op[0] == 'uvoid':
                    need = [op[1]]
                if op[0] == 'bvoid':
                    need = [op[1], op[2]]
                if op[0] == 'expr':
                    rhs = op[1].split('=')[-1]
                    need = [c for c in NAMES if c in rhs.replace('D{', '').replace('SUM{', '')]
                if any(x not in m.f for x in need):
                    break        # operand missing: the documented precondition of the step does not hold, the history ends here
                v = do(op, '_%d' % step)
                if v:
                    if v == 'STOP':
                        return None, out
                    return 'after the history %r: %s' % ([self.HIST_OPS[k] for k in seq[:step + 1]], v), out
        if sym:
            ctx.reach()
        return None, out

    def path(self, ctx, job):
        core.set_identity_hash(True)
        try:
            v, out = self._run(job, ctx.eng, None, ctx)
        finally:
            core.set_identity_hash(False)
        if out:
            ctx.observe(**out)
        if v:
            import re
            v = v.split(': ', 1)[1] if v.startswith('after the history') else v
            ctx.fail(re.sub(r"\[\d\]|'[^']*'|\[[^\]]*\]", '', v).split(' gives ')[0].strip())

    def concrete(self, job, inp):
        v, out = self._run(job, None, inp)
        return dict(violation=v, outputs=out)


CHECK = C01()
