"""C08 — the grid spatial index never omits a feature that is geometrically there."""
import sys
import math
import z3
from symx.runner import Check
from symx import core
from symx.core import zreal
from symx.lifts import std_patches

SI = 'tracklib.core.spatial_index'
GEO = 'tracklib.util.geometry'

# (frame extent (x0,y0,x1,y1), resolution or None, margin)
CONFIGS = {      # cell sizes are dyadic so that grid coordinates are exact in binary floating point (replay / validation follow the same path)
    'sq1':   ((0.0, 0.0, 3.0, 2.0), (1.0, 1.0), 0.0),       # 3 x 2 unit cells, margin 0: the data touch the border
    'rect':  ((0.0, 0.0, 4.0, 2.0), (2.0, 1.0), 0.5),       # non-square cells, margin: extent (-2..6, -1..3) -> 4 x 4 cells of 2 x 1
    'nondiv': ((0.0, 0.0, 3.0, 2.0), (0.7, 0.9), 0.0),      # resolution does not divide the extent: 4 x 2 cells of 0.75 x 1
    'tall':  ((0.0, 0.0, 2.0, 8.0), (0.5, 4.0), 0.0),       # dX = 0.5 << dY = 4: 4 x 2 cells
    'one':   ((0.0, 0.0, 2.0, 2.0), (3.0, 3.0), 0.5),       # a single cell
    'narrow': ((0.0, 0.0, 2.0, 4.0), (1.0, 1.0), 0.0),
    'coarser': ((0.0, 0.0, 4.0, 2.0), (2.0, 5.0), 0.0),     # a cell height larger than the extent: 2 x 1 cells of 2 x 2      # more rows than columns: 2 x 4 unit cells
    'fine': ((0.0, 0.0, 16.0, 16.0), (1.0, 1.0), 0.0),       # scale probes: 16 x 16 unit cells (long segments over > 64 cells, radii of >= 5 units, sparse inventory)
    'lambert': ((651000.03, 6861000.3, 651040.03, 6861020.3), (10.0, 10.0), 0.0),       # value-kind probes: projected-coordinate magnitudes, origin not representable in binary32
    'default': ((0.0, 0.0, 100.0, 50.0), None, 0.0),        # default resolution: 100 x 50 unit cells; point queries in two corner windows only
}
FEAT = 7
# long segments on the fine grid: fixed first vertex; the second vertex is base + s along one axis, s symbolic in [0, 1]
LONGS = [((0.5, 0.25), (12.5, 9.75), 'x'), ((15.5, 0.5), (2.25, 11.0), 'y'), ((0.25, 15.5), (14.0, 3.5), 'x'), ((3.0, 3.0), (12.5, 13.0), 'x'),
         ((1.5, 14.75), (13.25, 2.0), 'y'), ((0.75, 8.5), (15.0, 9.25), 'y'), ((8.5, 0.75), (9.25, 15.0), 'x')]


def build_index(cfg, markers=False):
    from tracklib.core import Track, Obs, ENUCoords, ObsTime, TrackCollection
    idx_mod = sys.modules[SI]
    (x0, y0, x1, y1), res, margin = CONFIGS[cfg]
    frame = Track([Obs(ENUCoords(x0, y0, 0), ObsTime()), Obs(ENUCoords(x1, y1, 0), ObsTime())])
    si = idx_mod.SpatialIndex(TrackCollection([frame]), resolution=res, margin=margin, verbose=False)
    if markers:
        for i in range(si.csize):
            for j in range(si.lsize):
                if markers == 'sparse' and (i % 4 or j % 4):
                    continue
                a = ENUCoords(si.xmin + (i + 0.4) * si.dX, si.ymin + (j + 0.4) * si.dY, 0)
                b = ENUCoords(si.xmin + (i + 0.6) * si.dX, si.ymin + (j + 0.5) * si.dY, 0)
                si.addFeature(Track([Obs(a, ObsTime()), Obs(b, ObsTime())]), 1000 + i * si.lsize + j)
    return si


# value-kind probes: candidate coordinates (exactly representable in binary32) on both sides of cell borders of the 'lambert' grid
KIND_XS = [651005.0, 651010.0, 651010.0625, 651020.0, 651030.0, 651030.0625, 651040.0]
KIND_YS = [6861005.5, 6861010.0, 6861010.5, 6861020.0]


def kind_value(pk, v):
    import numpy as np
    return {'float': float, 'npfloat64': np.float64, 'npfloat32': np.float32, 'int': lambda u: int(u)}[pk](v)


def exact_cell(si, px, py):
    """the cell containing the point, in exact rational arithmetic on the values actually passed"""
    from fractions import Fraction as F
    i = math.floor((F(float(px)) - F(si.xmin)) / F(si.dX))
    j = math.floor((F(float(py)) - F(si.ymin)) / F(si.dY))
    return (min(i, si.csize - 1), min(j, si.lsize - 1))


def in_cell(gx, gy, i, j, C, L):
    """grid coordinates (gx, gy) fall in cell (i, j): half-open cells, the outer border belongs to the last row / column"""
    cx = z3.And(gx >= i, gx < i + 1) if i < C - 1 else z3.And(gx >= i, gx <= i + 1)
    cy = z3.And(gy >= j, gy < j + 1) if j < L - 1 else z3.And(gy >= j, gy <= j + 1)
    return z3.And(cx, cy)


def cell_of(si, x, y):
    return (min(int(math.floor((x - si.xmin) / si.dX)), si.csize - 1), min(int(math.floor((y - si.ymin) / si.dY)), si.lsize - 1))


class C08(Check):
    id = 'C08'
    title = 'The grid spatial index never omits a feature that is geometrically there'
    functions = ['SpatialIndex.__init__', 'SpatialIndex.addFeature', 'SpatialIndex.__getCell', 'SpatialIndex.__cellsCrossSegment', 'geometry.isSegmentIntersects', 'SpatialIndex.request',
                 'SpatialIndex.neighborhood', 'SpatialIndex.__neighboringcells', 'SpatialIndex.groundDistanceToUnits']
    stubs = ['spatial_index.math rebound (floor of a symbolic value is ToInt)', 'spatial_index.int/float rebound to lifted classes (isinstance(i, int) recognises a symbolic cell index)',
             'proxy __format__ returns a placeholder (coordinates are formatted into warnings)']
    assumptions = ['the extent is fixed by a concrete frame track; resolutions / margins from a catalogue: %s' % {k: v for k, v in CONFIGS.items()},
                   'the feature segment, the query point / segment, the neighbour point and the ground distance are symbolic, anywhere in the closed extent (borders and corners included)',
                   '"the cell containing a point": half-open cells; points on the outer border belong to the last row / column',
                   'registration is decided as: for all t in [0,1] the cell containing S(t) lists the feature (t is a free variable of the negated query)']
    outside = ['unit = -1 incremental search', 'pickling', 'geographic coordinates', 'points outside the extent (documented: warning, not indexed)']
    budget = {'quick': 240, 'thorough': 2400}

    def bounds(self, tier):
        q = tier == 'quick'
        return dict(grids=sorted(self._cfgs(tier)), registration='one symbolic 2-vertex feature (thorough: also 3 vertices)', queries=['point', 'segment', 'track (2 legs)', 'neighbourhood by converted ground distance'])

    def _cfgs(self, tier):
        return ['sq1', 'tall', 'narrow', 'coarser'] if tier == 'quick' else ['sq1', 'rect', 'nondiv', 'tall', 'one', 'narrow', 'coarser']

    def jobs(self, tier, seed):
        js = []
        q = tier == 'quick'
        ncell = dict(sq1=6, rect=16, nondiv=8, tall=8, one=1, narrow=8, coarser=2)
        for c in self._cfgs(tier):
            for k in range(ncell[c]):       # one job per cell of the first vertex (the jobs partition the input space)
                js.append(dict(kind='register', cfg=c, nv=2, c0=k))
                if not q and c in ('sq1', 'tall'):
                    js.append(dict(kind='register', cfg=c, nv=3, c0=k))
                if not q or c == 'sq1':
                    js.append(dict(kind='segq', cfg=c, nv=2, c0=k))
                if not q and c == 'sq1':
                    js.append(dict(kind='segq', cfg=c, nv=3, c0=k))
            js.append(dict(kind='point', cfg=c))
            js.append(dict(kind='neigh', cfg=c))
        for k in range(len(LONGS) if not q else 4):
            js.append(dict(kind='register', cfg='fine', nv=2, long=k))
            js.append(dict(kind='segq', cfg='fine', nv=2, long=k))
        for c0 in ([(8, 8)] if q else [(8, 8), (4, 8), (0, 0), (15, 12)]):
            js.append(dict(kind='neigh', cfg='fine', sparse=True, cell=list(c0)))
        for pk in ('float', 'npfloat64', 'npfloat32', 'int'):
            js.append(dict(kind='pointkind', cfg='lambert', pk=pk))
        for c0 in ((0, 4) if q else range(6)):
            js.append(dict(kind='segq', cfg='sq1', nv=2, c0=c0, again=True))      # leftover-state probe: the same Track object queried, moved in place, queried again
        js.append(dict(kind='point', cfg='default', window=0))
        js.append(dict(kind='point', cfg='default', window=1))
        js.sort(key=lambda j: (0 if j['cfg'] in ('fine', 'coarser') else 1, 0 if j['kind'] in ('register', 'segq') else 1))      # scale probes first
        return js

    def patches(self, job):
        return std_patches([SI, GEO], math=True, ints=True)

    def _pt(self, eng, inp, si, name):
        if inp is None:
            return eng.real(name + 'x', si.xmin, si.xmax), eng.real(name + 'y', si.ymin, si.ymax)
        return float(inp[name + 'x']), float(inp[name + 'y'])

    def _long_pts(self, eng, inp, job):
        a, b, axis = LONGS[job['long']]
        sv = eng.real('s', 0, 1) if inp is None else float(inp['s'])
        return [a, (b[0] + sv, b[1]) if axis == 'x' else (b[0], b[1] + sv)]

    @staticmethod
    def _may_cross(job, i, j):
        """long segments: cells outside the bounding box of every admissible end point cannot contain a point of the segment (sound pruning of the query)"""
        if 'long' not in job:
            return True
        a, b, axis = LONGS[job['long']]
        xs = [a[0], b[0], b[0] + (1 if axis == 'x' else 0)]
        ys = [a[1], b[1], b[1] + (1 if axis == 'y' else 0)]
        return math.floor(min(xs)) - 1 <= i <= math.floor(max(xs)) + 1 and math.floor(min(ys)) - 1 <= j <= math.floor(max(ys)) + 1

    def _markers(self, job):
        return ('sparse' if job.get('sparse') else True) if job['kind'] in ('segq', 'neigh') else False

    def _track(self, pts):
        from tracklib.core import Track, Obs, ENUCoords, ObsTime
        return Track([Obs(ENUCoords(x, y, 0), ObsTime()) for x, y in pts])

    def path(self, ctx, job):
        eng = ctx.eng
        cfg = job['cfg']
        kind = job['kind']
        from tracklib.core import ENUCoords
        try:
            si = build_index(cfg, markers=self._markers(job))      # noqa
        except (Exception, SystemExit) as e:
            ctx.reach()
            ctx.fail('building the index over a collection raised %s' % type(e).__name__)
            return
        C, L = si.csize, si.lsize
        gx = lambda x: (zreal(x) - core.zreal(si.xmin)) / core.zreal(si.dX)
        gy = lambda y: (zreal(y) - core.zreal(si.ymin)) / core.zreal(si.dY)
        try:
            if kind == 'register':
                if 'long' in job:
                    pts = self._long_pts(eng, None, job)
                else:
                    pts = [self._pt(eng, None, si, 'v%d' % k) for k in range(job['nv'])]
                    eng.assume(in_cell(gx(pts[0][0]), gy(pts[0][1]), job['c0'] // L, job['c0'] % L, C, L))
                si.addFeature(self._track(pts), FEAT)
                ctx.reach()
                reg = [(i, j) for i in range(C) for j in range(L) if FEAT in si.grid[i][j]]
                ctx.observe(ncells=len(reg))
                ctx.note = 'registered in %r' % (reg,)
                t = eng.real('t', 0, 1).z        # witness parameter: an input only so that a counterexample carries it to the replay
                for k in range(job['nv'] - 1):
                    (xa, ya), (xb, yb) = pts[k], pts[k + 1]
                    sx = gx(xa) + t * (gx(xb) - gx(xa))
                    sy = gy(ya) + t * (gy(yb) - gy(ya))
                    miss = [in_cell(sx, sy, i, j, C, L) for i in range(C) for j in range(L) if (i, j) not in reg and self._may_cross(job, i, j)]
                    if miss and not ctx.prove(z3.Implies(z3.And(t >= 0, t <= 1), z3.Not(z3.Or(miss))),
                                              'every cell crossed by a segment of the feature has the feature registered', chain=False):
                        return
                return
            if kind == 'pointkind':
                ix, iy = eng.choice('ix', len(KIND_XS)), eng.choice('iy', len(KIND_YS))
                px, py = kind_value(job['pk'], KIND_XS[ix]), kind_value(job['pk'], KIND_YS[iy])
                got = si.request(ENUCoords(px, py, 0))
                ctx.reach()
                hit = [(i, j) for i in range(C) for j in range(L) if si.grid[i][j] is got]
                want = exact_cell(si, px, py)
                if hit != [want]:
                    ctx.fail('a point query with coordinates of another numeric kind does not read the cell that contains the point')
                return
            if kind == 'point':
                px, py = self._pt(eng, None, si, 'p')
                if 'window' in job:      # default resolution: the lower-left and the upper-right (outer border) corner windows of 3 x 3 cells
                    w = job['window']
                    eng.assume(z3.And(gx(px) <= 3, gy(py) <= 3) if w == 0 else z3.And(gx(px) >= C - 3, gy(py) >= L - 3))
                got = si.request(ENUCoords(px, py, 0))
                ctx.reach()
                # the cell that was read is decided on this path (the indices were concretised): it must be the cell containing P
                hit = [(i, j) for i in range(C) for j in range(L) if si.grid[i][j] is got]
                if len(hit) != 1:
                    ctx.fail('a point query did not return the content of one grid cell')
                    return
                i, j = hit[0]
                ctx.observe(ci=i, cj=j)
                ctx.prove(in_cell(gx(px), gy(py), i, j, C, L), 'a point query reads the cell that contains the point')
                return
            if kind == 'segq':
                if 'long' in job:
                    pts = self._long_pts(eng, None, job)
                else:
                    pts = [self._pt(eng, None, si, 'q%d' % k) for k in range(job['nv'])]
                    eng.assume(in_cell(gx(pts[0][0]), gy(pts[0][1]), job['c0'] // L, job['c0'] % L, C, L))
                if job['nv'] == 2 and not job.get('again'):
                    got = si.request([ENUCoords(pts[0][0], pts[0][1], 0), ENUCoords(pts[1][0], pts[1][1], 0)])
                elif job.get('again'):
                    trq = self._track([(0.25, 0.25), (0.5, 0.75), (0.75, 0.25)][:job['nv']])      # first query: a track inside the first cell
                    si.request(trq)
                    for k, (x, y) in enumerate(pts):                                              # the same object, moved in place
                        trq.getObs(k).position.setX(x)
                        trq.getObs(k).position.setY(y)
                    got = si.request(trq)
                else:
                    got = si.request(self._track(pts))
                ctx.reach()
                ctx.observe(nret=len(got))
                t = eng.real('t', 0, 1).z
                for k in range(job['nv'] - 1):
                    (xa, ya), (xb, yb) = pts[k], pts[k + 1]
                    sx = gx(xa) + t * (gx(xb) - gx(xa))
                    sy = gy(ya) + t * (gy(yb) - gy(ya))
                    miss = [in_cell(sx, sy, i, j, C, L) for i in range(C) for j in range(L) if (1000 + i * L + j) not in got and self._may_cross(job, i, j)]
                    if miss and not ctx.prove(z3.Implies(z3.And(t >= 0, t <= 1), z3.Not(z3.Or(miss))),
                                              'a segment / track query returns every feature registered in a crossed cell', chain=False):
                        return
                return
            if kind == 'neigh':
                px, py = self._pt(eng, None, si, 'p')
                if job.get('cell'):
                    eng.assume(in_cell(gx(px), gy(py), job['cell'][0], job['cell'][1], C, L))
                    d = eng.real('d', 3, 8)
                else:
                    d = eng.real('d', 0, max(si.xmax - si.xmin, si.ymax - si.ymin))
                u = si.groundDistanceToUnits(d)
                got = si.neighborhood(ENUCoords(px, py, 0), None, u)
                ctx.reach()
                if got is None:
                    ctx.fail('neighbourhood query of a point inside the extent returned None')
                    return
                ctx.observe(nret=len(got))
                qx, qy = eng.real('qx', si.xmin, si.xmax).z, eng.real('qy', si.ymin, si.ymax).z
                inside = z3.And(qx >= core.zreal(si.xmin), qx <= core.zreal(si.xmax), qy >= core.zreal(si.ymin), qy <= core.zreal(si.ymax))
                near = (qx - zreal(px)) * (qx - zreal(px)) + (qy - zreal(py)) * (qy - zreal(py)) <= d.z * d.z
                ggx = (qx - core.zreal(si.xmin)) / core.zreal(si.dX)
                ggy = (qy - core.zreal(si.ymin)) / core.zreal(si.dY)
                miss = [in_cell(ggx, ggy, i, j, C, L) for i in range(C) for j in range(L) if (1000 + i * L + j) not in got and (not job.get('sparse') or not (i % 4 or j % 4))]
                if miss:
                    ctx.prove(z3.Implies(z3.And(inside, near), z3.Not(z3.Or(miss))),
                              'a neighbourhood query with the converted ground distance d returns every feature registered at a point within d', chain=False)
                return
        except (core._Abort, core._Stop, core.Unsupported):
            raise
        except (Exception, SystemExit) as e:
            if isinstance(e, TypeError) and ('SReal' in str(e) or 'SInt' in str(e)):
                raise
            ctx.fail({'register': 'registering a feature inside the extent', 'point': 'a point query inside the extent', 'segq': 'a segment / track query inside the extent',
                      'neigh': 'a neighbourhood query inside the extent'}[kind] + ' raised %s' % type(e).__name__)

    # ------------------------------------------------------------------ replay with plain floats
    def concrete(self, job, inp):
        from tracklib.core import ENUCoords
        cfg, kind = job['cfg'], job['kind']
        try:
            si = build_index(cfg, markers=self._markers(job))
        except (Exception, SystemExit) as e:
            return dict(violation='building the index %s %r raised %s: %s' % (cfg, CONFIGS[cfg], type(e).__name__, e))
        C, L = si.csize, si.lsize
        N = 400 if 'long' not in job else 4000

        def cells_on(pts):
            out = set()
            for (xa, ya), (xb, yb) in zip(pts, pts[1:]):
                for k in range(N + 1):
                    t = k / N
                    out.add(cell_of(si, xa + t * (xb - xa), ya + t * (yb - ya)))
            return out
        try:
            if kind == 'register':
                pts = self._long_pts(None, inp, job) if 'long' in job else [self._pt(None, inp, si, 'v%d' % k) for k in range(job['nv'])]
                si.addFeature(self._track(pts), FEAT)
                reg = {(i, j) for i in range(C) for j in range(L) if FEAT in si.grid[i][j]}
                tparam = inp.get('t')
                need = cells_on(pts)
                if tparam is not None:
                    for (xa, ya), (xb, yb) in zip(pts, pts[1:]):
                        need.add(cell_of(si, xa + float(tparam) * (xb - xa), ya + float(tparam) * (yb - ya)))
                if not need <= reg:
                    return dict(violation='feature %r on grid %s: crossed cells %r are not registered (registered: %r)' % (pts, cfg, sorted(need - reg), sorted(reg)), outputs=dict(ncells=len(reg)))
                return dict(violation=None, outputs=dict(ncells=len(reg)))
            if kind == 'pointkind':
                px, py = kind_value(job['pk'], KIND_XS[int(inp['ix'])]), kind_value(job['pk'], KIND_YS[int(inp['iy'])])
                got = si.request(ENUCoords(px, py, 0))
                hit = [(i, j) for i in range(C) for j in range(L) if si.grid[i][j] is got]
                want = exact_cell(si, px, py)
                if hit != [want]:
                    return dict(violation='point query (%r, %r) given as %s on grid %s read cell %r, the point is in cell %r' % (px, py, job['pk'], cfg, hit, want))
                return dict(violation=None, outputs={})
            if kind == 'point':
                px, py = self._pt(None, inp, si, 'p')
                got = si.request(ENUCoords(px, py, 0))
                hit = [(i, j) for i in range(C) for j in range(L) if si.grid[i][j] is got]
                if hit != [cell_of(si, px, py)]:
                    return dict(violation='point query (%r, %r) on grid %s read cell %r, the point is in cell %r' % (px, py, cfg, hit, cell_of(si, px, py)))
                return dict(violation=None, outputs=dict(ci=hit[0][0], cj=hit[0][1]))
            if kind == 'segq':
                pts = self._long_pts(None, inp, job) if 'long' in job else [self._pt(None, inp, si, 'q%d' % k) for k in range(job['nv'])]
                if job.get('again'):
                    trq = self._track([(0.25, 0.25), (0.5, 0.75), (0.75, 0.25)][:job['nv']])
                    si.request(trq)
                    for k, (x, y) in enumerate(pts):
                        trq.getObs(k).position.setX(x)
                        trq.getObs(k).position.setY(y)
                    got = si.request(trq)
                else:
                    got = si.request([ENUCoords(pts[0][0], pts[0][1], 0), ENUCoords(pts[1][0], pts[1][1], 0)]) if job['nv'] == 2 else si.request(self._track(pts))
                need = cells_on(pts)
                if inp.get('t') is not None:
                    for (xa, ya), (xb, yb) in zip(pts, pts[1:]):
                        need.add(cell_of(si, xa + float(inp['t']) * (xb - xa), ya + float(inp['t']) * (yb - ya)))
                miss = [c for c in sorted(need) if (1000 + c[0] * L + c[1]) not in got]
                if miss:
                    return dict(violation='query %r on grid %s crosses cells %r whose features are not returned' % (pts, cfg, miss), outputs=dict(nret=len(got)))
                return dict(violation=None, outputs=dict(nret=len(got)))
            if kind == 'neigh':
                px, py = self._pt(None, inp, si, 'p')
                d = float(inp['d'])
                u = si.groundDistanceToUnits(d)
                got = si.neighborhood(ENUCoords(px, py, 0), None, u)
                if got is None:
                    return dict(violation='neighborhood((%r, %r)) returned None on grid %s' % (px, py, cfg))
                cand = []
                if 'qx' in inp:
                    cand.append((float(inp['qx']), float(inp['qy'])))
                for k in range(64):
                    a = 2 * math.pi * k / 64
                    cand.append((px + d * math.cos(a) * 0.999999, py + d * math.sin(a) * 0.999999))
                for qx, qy in cand:
                    if not (si.xmin <= qx <= si.xmax and si.ymin <= qy <= si.ymax) or math.hypot(qx - px, qy - py) > d:
                        continue
                    c = cell_of(si, qx, qy)
                    if job.get('sparse') and (c[0] % 4 or c[1] % 4):
                        continue
                    if (1000 + c[0] * L + c[1]) not in got:
                        return dict(violation='grid %s (cells %r x %r): neighbourhood of (%r, %r) for ground distance %r (units %r) misses the feature registered at (%r, %r), %r away'
                                              % (cfg, si.dX, si.dY, px, py, d, u, qx, qy, math.hypot(qx - px, qy - py)), outputs=dict(nret=len(got)))
                return dict(violation=None, outputs=dict(nret=len(got)))
        except (Exception, SystemExit) as e:
            return dict(violation='%s on grid %s raised %s: %s (inputs %r)' % (kind, cfg, type(e).__name__, e, inp))


CHECK = C08()
