"""C17 — curvilinear abscissa and speed features match their geometric definitions."""
import sys
import math
import z3
from symx.runner import Check
from symx import core
from symx.core import zreal
from symx.lifts import std_patches
from checks import aflib
from checks.aflib import isnan

COORDS = 'tracklib.core.obs_coords'
TRK = 'tracklib.core.track'
OPS = 'tracklib.core.operators'
UTL = 'tracklib.core.utils'
CIN = 'tracklib.algo.cinematics'
ANA = 'tracklib.algo.analytics'
OT = 'tracklib.core.obs_time'


def build(n, xs, ys, zs, secs, mss, feat=None):
    from tracklib.core import Track, Obs, ENUCoords, ObsTime
    tr = Track([Obs(ENUCoords(xs[i], ys[i], zs[i]), ObsTime(1970, 1, 1, 0, 0, secs[i], mss[i])) for i in range(n)])
    if feat is not None:
        tr.createAnalyticalFeature('f', list(feat))
    return tr


class C17(Check):
    id = 'C17'
    title = 'Curvilinear abscissa and speed features match their geometric definitions'
    functions = ['cinematics.computeAbsCurv', 'analytics.ds', 'operators.Integrator', 'cinematics.estimate_speed', 'analytics.speed', 'Track.addAnalyticalFeature',
                 'ENUCoords.distance2DTo / norm2D', 'ObsTime.__sub__ / toAbsTime']
    stubs = ['obs_coords.math rebound: sqrt(x) of a symbolic x is a fresh r with r >= 0 and r*r = x (memoised per term)',
             'track/utils/operators float and int rebound to lifted classes']
    assumptions = ['coordinates symbolic reals in [-100, 100] (x, y and z); timestamps in the first minute of 1970-01-01 (so that float seconds keep sub-millisecond resolution) with symbolic integer second 0..59 and millisecond 0..999 '
                   '(ms symbolic for n <= 3), non-decreasing, ties allowed',
                   'the oracle uses its own square-root variables over dx^2 + dy^2, so equality with the code\'s values is decided by the solver']
    outside = ['smoothed_speed_calculation', 'floating-point rounding of the running sum', 'geographic coordinates', 'n beyond the bound']
    budget = {'quick': 150, 'thorough': 1800}

    def bounds(self, tier):
        return dict(abs_curv='n = 1..%d fixes, with a user feature present, computed twice; also on a track extracted from a longer one that already carries a ds feature (first value not 0)' % (3 if tier == 'quick' else 5),
                    speed='n = 2..%d fixes (every pattern of equal / increasing instants is a path), computed twice, also after computeAbsCurv on the same track' % (3 if tier == 'quick' else 4))

    def jobs(self, tier, seed):
        q = tier == 'quick'
        js = [dict(kind='abscurv', n=n) for n in range(1, (3 if q else 5) + 1)]
        js += [dict(kind='abscurv', n=n, stale=True) for n in range(1, (3 if q else 4) + 1)]
        js += [dict(kind='speed', n=n) for n in range(2, (3 if q else 4) + 1)]
        js += [dict(kind='speed', n=3, after_abscurv=True)]       # the order in which the two features are computed must not matter
        js.sort(key=lambda j: -j['n'])
        # scale probes: long tracks (fixed fixes except two symbolic positions; some repeated timestamps)
        for n in ([130] if q else [127, 128, 129, 130, 257, 400]):
            js.append(dict(kind='abscurv_long', n=n))
        for n in ([40] if q else [31, 32, 33, 40, 130]):
            js.append(dict(kind='speed_long', n=n))
        # value-kind probe: timestamp fields held as numpy integers; aliasing probes: a closing copy of the first fix appended (loop(add=True)),
        # a time window extracted and measured before the whole track is measured
        js.append(dict(kind='speed_long', n=16, tk='npint'))
        js.append(dict(kind='speed_long', n=16, tk='npfloat'))
        for hist in ('loop', 'window'):
            js.append(dict(kind='abscurv_long', n=20, hist=hist))
            if hist == 'window':      # (the closing copy repeats the first timestamp: outside the non-decreasing domain of the speed claim)
                js.append(dict(kind='speed_long', n=20, hist=hist))
        return js

    def patches(self, job):
        return std_patches([COORDS, TRK, OPS, UTL, OT], math=True, ints=True)

    def _inputs(self, eng, inp, n, timesym):
        sym = inp is None
        g = (lambda nm: eng.real(nm, -100, 100)) if sym else (lambda nm: float(inp[nm]))
        gi = (lambda nm, lo, hi: eng.int(nm, lo, hi)) if sym else (lambda nm, lo, hi: int(inp[nm]))
        xs, ys, zs = [g('x%d' % i) for i in range(n)], [g('y%d' % i) for i in range(n)], [g('z%d' % i) for i in range(n)]
        if timesym:
            secs = [gi('s%d' % i, 0, 59) for i in range(n)]
            mss = [gi('m%d' % i, 0, 999) if n <= 3 else 0 for i in range(n)]
            if sym and n > 1:
                ks = [core.zterm(secs[i]) * 1000 + core.zterm(mss[i]) for i in range(n)]
                eng.assume(z3.And([a <= b for a, b in zip(ks, ks[1:])]))
        else:
            secs, mss = list(range(n)), [0] * n
        return xs, ys, zs, secs, mss

    def _long_inputs(self, eng, inp, n):
        xs = [3.0 * i + 0.5 * ((i * 7) % 5) for i in range(n)]
        ys = [10.0 * math.sin(i / 3.0) + 0.25 * ((i * 3) % 4) for i in range(n)]
        zs = [float(i % 6) for i in range(n)]
        for i in (1, n - 2):
            if inp is None:
                xs[i], ys[i] = eng.real('x%d' % i, xs[i] - 2, xs[i] + 2), eng.real('y%d' % i, ys[i] - 2, ys[i] + 2)
            else:
                xs[i], ys[i] = float(inp['x%d' % i]), float(inp['y%d' % i])
        # instants i/8 s, except three groups of repeated timestamps (both ends and an interior run of three)
        k = list(range(n))
        k[1] = k[0]
        k[n - 1] = k[n - 2]
        k[11] = k[12] = k[10]
        return xs, ys, zs, [v // 8 for v in k], [125 * (v % 8) for v in k]

    @staticmethod
    def _tk(job, vals):
        if job.get('tk'):
            import numpy as np
            conv = {'npint': np.int64, 'npfloat': np.float64}[job['tk']]
            return [conv(v) for v in vals]
        return vals

    @staticmethod
    def _history(job, tr, xs, ys, secs, mss, n):
        """returns the track to measure, its coordinates / instants, its size and (window, offset) when a window was measured first"""
        cin = sys.modules[CIN]
        h = job.get('hist')
        if h == 'loop':
            tr.loop(add=True)
            return tr, xs + [xs[0]], ys + [ys[0]], secs + [secs[0]], mss + [mss[0]], n + 1, None
        if h == 'window':
            a, b = 4, n - 5
            w = tr.extractSpanTime(tr.getObs(a).timestamp, tr.getObs(b).timestamp)
            if w.size() != b - a + 1:
                raise core.Unsupported('the window does not hold the expected fixes')
            if job['kind'] == 'abscurv_long':
                cin.computeAbsCurv(w)
            else:
                w.estimate_speed()
            return tr, xs, ys, secs, mss, n, (w, a)
        return tr, xs, ys, secs, mss, n, None

    def _long_path(self, ctx, job):
        eng = ctx.eng
        n = job['n']
        cin = sys.modules[CIN]
        xs, ys, zs, secs, mss = self._long_inputs(eng, None, n)
        tr = build(n, xs, ys, zs, self._tk(job, secs), self._tk(job, mss), [float(i) for i in range(n)])
        tr, xs, ys, secs, mss, n, extra = self._history(job, tr, xs, ys, secs, mss, n)
        tol = z3.Q(1, 10 ** 6)

        def leg(i, j):
            if not (core.is_sym(xs[i]) or core.is_sym(xs[j])):
                return z3.RealVal(repr(math.hypot(xs[i] - xs[j], ys[i] - ys[j])))
            r = eng.fresh_real('leg')
            dx, dy = zreal(xs[i]) - zreal(xs[j]), zreal(ys[i]) - zreal(ys[j])
            eng.assume(z3.And(r >= 0, r * r == dx * dx + dy * dy), check=False)
            return r
        close = lambda a, b: z3.And(a - b <= tol, b - a <= tol)
        try:
            if job['kind'] == 'abscurv_long':
                ac = cin.computeAbsCurv(tr)
                ctx.reach()
                ctx.observe(last=ac[-1] if len(ac) else None)
                if len(ac) != n:
                    ctx.fail('abs_curv does not have one value per fix')
                    return
                if not ctx.prove(zreal(ac[0]) == 0, 'the curvilinear abscissa starts at 0'):
                    return
                legs = [leg(i, i - 1) for i in range(1, n)]
                for i in range(1, n):
                    if not ctx.prove(close(zreal(ac[i]) - zreal(ac[i - 1]), legs[i - 1]), 'long track: the abscissa grows between consecutive fixes by their planimetric distance (never decreases)', chain=True):
                        return
                total = z3.Sum(legs)
                ctx.prove(z3.And(zreal(ac[-1]) - total <= n * tol, total - zreal(ac[-1]) <= n * tol), 'long track: the abscissa ends at the planimetric length of the track')
                if extra is not None:       # the window measured earlier keeps its own abscissa
                    w, a = extra
                    wa = w.getAnalyticalFeature('abs_curv')
                    if len(wa) != w.size() or not ctx.prove(zreal(wa[0]) == 0, 'the abscissa of a window extracted earlier still starts at 0 after the whole track was measured'):
                        return
                    for i in range(1, w.size()):
                        if not ctx.prove(close(zreal(wa[i]) - zreal(wa[i - 1]), leg(a + i, a + i - 1)), 'the abscissa of a window extracted earlier still grows by the planimetric distances after the whole track was measured'):
                            return
                return
            sp = tr.estimate_speed()
            ctx.reach()
            ctx.observe(first=sp[0] if len(sp) else None)
            if len(sp) != n:
                ctx.fail('speed does not have one value per fix')
                return
            tk = [secs[i] + mss[i] / 1000.0 for i in range(n)]
            for i in range(n):
                a, b = (0, 1) if i == 0 else ((n - 2, n - 1) if i == n - 1 else (i - 1, i + 1))
                dt = tk[b] - tk[a]
                v = sp[i]
                if dt == 0:
                    if not isnan(v):
                        ctx.fail('long track: speed is not NaN although the elapsed time between the neighbours is zero')
                        return
                    continue
                if isnan(v) or (isinstance(v, float) and math.isinf(v)):
                    ctx.fail('long track: speed is NaN or infinite although the elapsed time is not zero')
                    return
                if not ctx.prove(close(zreal(v) * z3.RealVal(repr(dt)), leg(b, a)), 'long track: speed equals the planimetric distance between the neighbours divided by the elapsed time'):
                    return
        except (core._Abort, core._Stop, core.Unsupported):
            raise
        except Exception as e:
            if isinstance(e, TypeError) and ('SReal' in str(e) or 'SInt' in str(e)):
                raise
            ctx.fail('%s raised %s' % (job['kind'], type(e).__name__))

    def _long_concrete(self, job, inp):
        n = job['n']
        cin = sys.modules[CIN]
        xs, ys, zs, secs, mss = self._long_inputs(None, inp, n)
        tr = build(n, xs, ys, zs, self._tk(job, secs), self._tk(job, mss), [float(i) for i in range(n)])
        try:
            tr, xs, ys, secs, mss, n, extra = self._history(job, tr, xs, ys, secs, mss, n)
        except core.Unsupported:
            return dict(violation=None, outputs={})
        d2 = lambda i, j: math.hypot(xs[i] - xs[j], ys[i] - ys[j])
        try:
            if job['kind'] == 'abscurv_long':
                ac = cin.computeAbsCurv(tr)
                out = dict(last=float(ac[-1]))
                if len(ac) != n or ac[0] != 0:
                    return dict(violation='abs_curv of a %d-fix track has %d values starting at %r' % (n, len(ac), ac[:1]), outputs=out)
                for i in range(1, n):
                    if abs((ac[i] - ac[i - 1]) - d2(i, i - 1)) > 1e-6:
                        return dict(violation='%d-fix track: abs_curv goes from %r to %r at index %d, the planimetric distance is %r' % (n, ac[i - 1], ac[i], i, d2(i, i - 1)), outputs=out)
                if abs(ac[-1] - sum(d2(i, i - 1) for i in range(1, n))) > 1e-6:
                    return dict(violation='%d-fix track: abs_curv ends at %r, the planimetric length is %r' % (n, ac[-1], sum(d2(i, i - 1) for i in range(1, n))), outputs=out)
                if extra is not None:
                    w, a = extra
                    wa = w.getAnalyticalFeature('abs_curv')
                    if len(wa) != w.size() or wa[0] != 0 or any(abs((wa[i] - wa[i - 1]) - d2(a + i, a + i - 1)) > 1e-6 for i in range(1, w.size())):
                        return dict(violation='the abscissa of the window measured before the whole track is now %r' % (list(wa),), outputs=out)
                return dict(violation=None, outputs=out)
            sp = tr.estimate_speed()
            out = dict(first=float(sp[0]))
            tk = [secs[i] + mss[i] / 1000.0 for i in range(n)]
            for i in range(n):
                a, b = (0, 1) if i == 0 else ((n - 2, n - 1) if i == n - 1 else (i - 1, i + 1))
                dt = tk[b] - tk[a]
                if (dt == 0) != isnan(sp[i]):
                    return dict(violation='%d-fix track: speed[%d] = %r with elapsed time %r' % (n, i, sp[i], dt), outputs=out)
                if dt != 0 and not abs(sp[i] * dt - d2(a, b)) <= 1e-6:
                    return dict(violation='%d-fix track: speed[%d] = %r, neighbours are %r apart in %r s' % (n, i, sp[i], d2(a, b), dt), outputs=out)
            return dict(violation=None, outputs=out)
        except Exception as e:
            return dict(violation='%s raised %s: %s' % (job['kind'], type(e).__name__, e))

    def path(self, ctx, job):
        if job['kind'].endswith('_long'):
            return self._long_path(ctx, job)
        eng = ctx.eng
        n = job['n']
        cin = sys.modules[CIN]
        stale = bool(job.get('stale'))
        xs, ys, zs, secs, mss = self._inputs(eng, None, n + (1 if stale else 0), job['kind'] == 'speed')
        feat = [eng.real('f%d' % i, -5, 5) for i in range(n + (1 if stale else 0))]
        tr = build(n + (1 if stale else 0), xs, ys, zs, secs, mss, feat)
        if stale:
            # a 'ds' feature computed earlier on a longer track and carried over by extract(): its first value is not 0
            tr.addAnalyticalFeature(sys.modules[ANA].ds, 'ds')
            tr = tr.extract(1, n)
            xs, ys, zs, secs, mss, feat = xs[1:], ys[1:], zs[1:], secs[1:], mss[1:], feat[1:]
        pos = [tr.getObs(i).position for i in range(n)]
        tss = [tr.getObs(i).timestamp for i in range(n)]
        obs = [tr.getObs(i) for i in range(n)]

        def leg(i, j):
            """oracle: planimetric distance between fixes i and j as an independent sqrt variable"""
            r = eng.fresh_real('leg')
            dx, dy = xs[i].z - xs[j].z, ys[i].z - ys[j].z
            eng.assume(z3.And(r >= 0, r * r == dx * dx + dy * dy), check=False)
            return r

        def frame(what):
            now = [tr.getObs(i) for i in range(tr.size())]
            if len(now) != n or any(a is not b for a, b in zip(now, obs)):
                ctx.fail(what + ' changed the observation list')
                return False
            for i in range(n):
                p = tr.getObs(i).position
                if p is not pos[i] or p.getX() is not xs[i] or p.getY() is not ys[i] or p.getZ() is not zs[i]:
                    ctx.fail(what + ' changed a position')
                    return False
                if tr.getObs(i).timestamp is not tss[i] or tss[i].sec is not secs[i] or (core.is_sym(mss[i]) and tss[i].ms is not mss[i]):
                    ctx.fail(what + ' changed a timestamp')
                    return False
            if any(tr.getObsAnalyticalFeature('f', i) is not feat[i] for i in range(n)):
                ctx.fail(what + ' changed another feature')
                return False
            return True

        try:
            if job['kind'] == 'abscurv':
                ac = cin.computeAbsCurv(tr)
                ctx.observe(abs_curv=list(ac))
                ctx.reach()
                if len(ac) != n:
                    ctx.fail('abs_curv does not have one value per fix')
                    return
                if not ctx.prove(zreal(ac[0]) == 0, 'the curvilinear abscissa starts at 0'):
                    return
                legs = []
                for i in range(1, n):
                    r = leg(i, i - 1)
                    legs.append(r)
                    if not ctx.prove(zreal(ac[i]) - zreal(ac[i - 1]) == r, 'the abscissa grows between consecutive fixes by exactly their planimetric distance'):
                        return
                if n > 1 and not ctx.prove(zreal(ac[-1]) == z3.Sum(legs) if len(legs) > 1 else zreal(ac[-1]) == legs[0], 'the abscissa ends at the planimetric length of the track'):
                    return
                names = tr.getListAnalyticalFeatures()
                if 'ds' in names or sorted(names) != ['abs_curv', 'f']:
                    ctx.fail('after computeAbsCurv the track lists other features than the user feature and abs_curv')
                    return
                if not frame('computeAbsCurv'):
                    return
                stored = tr.getAnalyticalFeature('abs_curv')
                if any(a is not b for a, b in zip(stored, ac)):
                    ctx.fail('the stored abs_curv feature differs from the returned list')
                    return
                ac2 = cin.computeAbsCurv(tr)
                if len(ac2) != n or any(not aflib.same_value(a, b) for a, b in zip(ac2, ac)):
                    ctx.fail('a second computation returns a different abscissa')
                    return
                if sorted(tr.getListAnalyticalFeatures()) != ['abs_curv', 'f']:
                    ctx.fail('after a second computeAbsCurv the track lists other features')
                    return
                frame('second computeAbsCurv')
            else:
                if job.get('after_abscurv'):
                    cin.computeAbsCurv(tr)
                sp = tr.estimate_speed()
                ctx.reach()
                if len(sp) != n:
                    ctx.fail('speed does not have one value per fix')
                    return
                ctx.observe(speed=list(sp))
                tk = [zreal(secs[i]) + zreal(mss[i]) / 1000 for i in range(n)]
                for i in range(n):
                    a, b = (0, 1) if i == 0 else ((n - 2, n - 1) if i == n - 1 else (i - 1, i + 1))
                    dt = tk[b] - tk[a]
                    if isnan(sp[i]):
                        if not ctx.prove(dt == 0, 'speed is NaN only when the elapsed time between the neighbours is zero'):
                            return
                        continue
                    r = leg(b, a)
                    # lemma chain (each step proved by the solver): the code's own distance term equals the oracle's leg, and speed * dt equals that term
                    d = zreal(pos[b].distance2DTo(pos[a]))
                    ctx.lemma(d == r, 3000) and ctx.lemma(zreal(sp[i]) * dt == d, 3000)
                    if not ctx.prove(z3.And(dt != 0, zreal(sp[i]) * dt == r),
                                     'speed equals the planimetric distance between the neighbours divided by the elapsed time (one-sided at the ends)'):
                        return
                if sorted(tr.getListAnalyticalFeatures()) != (['abs_curv', 'f', 'speed'] if job.get('after_abscurv') else ['f', 'speed']):
                    ctx.fail('after estimate_speed the track lists other features than the user feature and speed')
                    return
                if not frame('estimate_speed'):
                    return
                sp2 = tr.estimate_speed()
                if len(sp2) != n or any(not aflib.same_value(a, b) for a, b in zip(sp2, sp)):
                    ctx.fail('a second computation returns different speeds')
                    return
                frame('second estimate_speed')
        except (core._Abort, core._Stop, core.Unsupported):
            raise
        except Exception as e:
            if isinstance(e, TypeError) and ('SReal' in str(e) or 'SInt' in str(e)):
                raise
            ctx.fail('%s raised %s' % (job['kind'], type(e).__name__))

    def concrete(self, job, inp):
        if job['kind'].endswith('_long'):
            return self._long_concrete(job, inp)
        n = job['n']
        cin = sys.modules[CIN]
        stale = bool(job.get('stale'))
        xs, ys, zs, secs, mss = self._inputs(None, inp, n + (1 if stale else 0), job['kind'] == 'speed')
        feat = [float(inp['f%d' % i]) for i in range(n + (1 if stale else 0))]
        tr = build(n + (1 if stale else 0), xs, ys, zs, secs, mss, feat)
        if stale:
            tr.addAnalyticalFeature(sys.modules[ANA].ds, 'ds')
            tr = tr.extract(1, n)
            xs, ys, zs, secs, mss, feat = xs[1:], ys[1:], zs[1:], secs[1:], mss[1:], feat[1:]
        d2 = lambda i, j: math.hypot(xs[i] - xs[j], ys[i] - ys[j])
        tol = lambda v: 1e-9 * max(1.0, abs(v))
        try:
            if job['kind'] == 'abscurv':
                ac = cin.computeAbsCurv(tr)
                out = dict(abs_curv=[float(v) for v in ac])
                if len(ac) != n or ac[0] != 0:
                    return dict(violation='abs_curv = %r' % (ac,), outputs=out)
                for i in range(1, n):
                    if abs((ac[i] - ac[i - 1]) - d2(i, i - 1)) > tol(ac[i]):
                        return dict(violation='abs_curv %r: step %d is %r, the planimetric distance is %r' % (ac, i, ac[i] - ac[i - 1], d2(i, i - 1)), outputs=out)
                if sorted(tr.getListAnalyticalFeatures()) != ['abs_curv', 'f']:
                    return dict(violation='features after computeAbsCurv: %r' % tr.getListAnalyticalFeatures(), outputs=out)
                ac2 = cin.computeAbsCurv(tr)
                if list(ac2) != list(ac):
                    return dict(violation='second computation %r differs from %r' % (ac2, ac), outputs=out)
                if sorted(tr.getListAnalyticalFeatures()) != ['abs_curv', 'f']:
                    return dict(violation='features after the second computeAbsCurv: %r' % tr.getListAnalyticalFeatures(), outputs=out)
            else:
                if job.get('after_abscurv'):
                    cin.computeAbsCurv(tr)
                sp = tr.estimate_speed()
                out = dict(speed=[float(v) for v in sp])
                tk = [secs[i] + mss[i] / 1000.0 for i in range(n)]
                for i in range(n):
                    a, b = (0, 1) if i == 0 else ((n - 2, n - 1) if i == n - 1 else (i - 1, i + 1))
                    dt = tk[b] - tk[a]
                    if (dt == 0) != isnan(sp[i]):
                        return dict(violation='speed[%d] = %r with elapsed time %r' % (i, sp[i], dt), outputs=out)
                    if dt != 0 and abs(sp[i] - d2(a, b) / dt) > tol(sp[i]):
                        return dict(violation='speed[%d] = %r, neighbours are %r apart in %r s' % (i, sp[i], d2(a, b), dt), outputs=out)
                if sorted(tr.getListAnalyticalFeatures()) != (['abs_curv', 'f', 'speed'] if job.get('after_abscurv') else ['f', 'speed']):
                    return dict(violation='features after estimate_speed: %r' % tr.getListAnalyticalFeatures(), outputs=out)
            if [tr.getX(), tr.getY(), tr.getZ()] != [xs, ys, zs] or [tr.getObsAnalyticalFeature('f', i) for i in range(n)] != feat:
                return dict(violation='positions or another feature changed', outputs=out)
            if any(tr.getObs(i).timestamp.sec != secs[i] or tr.getObs(i).timestamp.ms != mss[i] for i in range(n)):
                return dict(violation='a timestamp changed', outputs=out)
        except Exception as e:
            return dict(violation='%s raised %s: %s' % (job['kind'], type(e).__name__, e))
        return dict(violation=None, outputs=out)


CHECK = C17()
