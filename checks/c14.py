"""C14 — coordinate conversions: the algebraic sub-claims (rotation round trips for any base, base -> (0,0,0),
closed-form WGS84 forward conversion, whole-track wiring).  The accuracy of the closed-form ECEF->Geo inverse and of the
Lambert-93 iteration is transcendental floating-point error analysis and is NOT decided here (see MANIFEST / DESIGN)."""
import sys
import math
import z3
from symx.runner import Check
from symx import core
from symx.core import zreal
from symx.lifts import std_patches

COORDS = 'tracklib.core.obs_coords'
TRK = 'tracklib.core.track'

A_WGS84 = 6378137.0
F_WGS84 = 1.0 / 298.257223563


class TrigMath(core.SymMath):
    """sin / cos of a symbolic angle: uninterpreted, memoised per argument term, with the circle identity instantiated
    on exactly the arguments the code uses"""

    def _pair(self, x):
        s = core.sym_ufun('sin', x)
        c = core.sym_ufun('cos', x)
        key = ('circle', z3.simplify(zreal(x)).get_id())
        if key not in core.ENG.memo:
            core.ENG.memo[key] = True
            core.ENG.assume(z3.And(s.z * s.z + c.z * c.z == 1), check=False)
        return s, c

    def sin(self, x):
        if not isinstance(x, (core.SInt, core.SReal)):
            return math.sin(x)
        return self._pair(x)[0]

    def cos(self, x):
        if not isinstance(x, (core.SInt, core.SReal)):
            return math.cos(x)
        return self._pair(x)[1]


def closed_form(lon_deg, lat_deg, h):
    """independent WGS84 forward formulas on plain floats"""
    e2 = 2 * F_WGS84 - F_WGS84 ** 2
    lam, phi = math.radians(lon_deg), math.radians(lat_deg)
    N = A_WGS84 / math.sqrt(1 - e2 * math.sin(phi) ** 2)
    return ((N + h) * math.cos(phi) * math.cos(lam), (N + h) * math.cos(phi) * math.sin(lam), ((1 - e2) * N + h) * math.sin(phi))


def rot_enu(x, y, z, b, lon_deg, lat_deg):
    """independent ECEF -> ENU rotation on floats, base position b and base longitude / latitude in degrees"""
    lam, phi = math.radians(lon_deg), math.radians(lat_deg)
    dx, dy, dz = x - b[0], y - b[1], z - b[2]
    e = -math.sin(lam) * dx + math.cos(lam) * dy
    n = -math.sin(phi) * math.cos(lam) * dx - math.sin(phi) * math.sin(lam) * dy + math.cos(phi) * dz
    u = math.cos(phi) * math.cos(lam) * dx + math.cos(phi) * math.sin(lam) * dy + math.sin(phi) * dz
    return e, n, u


class C14(Check):
    id = 'C14'
    title = 'Coordinate conversions round-trip and agree with the WGS84 ellipsoid (algebraic sub-claims)'
    functions = ['ECEFCoords.toENUCoords', 'ENUCoords.toECEFCoords', 'ECEFCoords.toGeoCoords (only as the deterministic source of the base angles)', 'GeoCoords.toECEFCoords', 'GeoCoords.toENUCoords',
                 'Track.toENUCoords', 'Track.toECEFCoords']
    stubs = ['obs_coords.math rebound: sin / cos / atan2 of symbolic arguments are uninterpreted functions memoised per argument term (same term => same variable), with sin^2 + cos^2 = 1 '
             'instantiated on the arguments the code uses; sqrt of a symbolic term is a root variable; sqrt / sin of constants are the real math functions']
    assumptions = ['points and bases are symbolic: ECEF components in [-7e6, 7e6] (bases: at least one component >= 3.6e6 in magnitude, i.e. not near the Earth\'s centre), ENU components in [-1e5, 1e5], longitude in [-180, 180], latitude in [-89.9, 89.9], height in [-1000, 10000]',
                   'a ZeroDivisionError raised by cos(latitude) == 0 inside toGeoCoords is the pole, excluded by the property (|lat| <= 89.9)',
                   'closed form: X = (N+h) cos(phi) cos(lambda), Y = (N+h) cos(phi) sin(lambda), Z = ((1-e^2) N + h) sin(phi), N = a / sqrt(1 - e^2 sin^2 phi), a = 6378137, f = 1/298.257223563, '
                   'e^2 = 2f - f^2 (the module constant is compared with it to 1e-15 as a plain number)']
    outside = ['accuracy of the closed-form ECEF -> geographic inverse (1e-9 degree / 1 mm) and hence the Geo -> ECEF -> Geo and Geo -> ENU -> Geo round trips',
               'Lambert-93 forward / iterative inverse', 'numerical values and rounding of sin, cos, atan2, sqrt', 'stereographic projection mode (STANDARD_PROJ = 2)']
    budget = {'quick': 120, 'thorough': 600}

    def bounds(self, tier):
        return dict(round_trips=['ECEF -> ENU(base) -> ECEF(base)', 'ENU -> ECEF(base) -> ENU(base)'], bases=['symbolic ECEF base', 'symbolic geographic base'],
                    base_origin=['ECEF base', 'geographic base'], closed_form='all lon, lat, h (sin / cos uninterpreted + circle identity)', track='n = 2 observations, wiring and recorded base; re-projection history (project, back to ECEF, project with another base); ENU -> ENU re-basing')

    def jobs(self, tier, seed):
        js = []
        for base in ('ecef', 'geo'):
            js.append(dict(kind='rt_ecef', base=base))
            js.append(dict(kind='rt_enu', base=base))
            js.append(dict(kind='base0', base=base))
            js.append(dict(kind='track', base=base))
            js.append(dict(kind='track2', base=base))
            js.append(dict(kind='rebase', base=base))
        js.append(dict(kind='wgs84'))
        # scale probes: long tracks (fixed positions except observations 1 and n-2), near bases with far points
        for n in ([33] if tier == 'quick' else [31, 32, 33, 64, 200]):
            for conv in ('geo2ecef', 'ecef2enu', 'enu2ecef', 'geo2enu'):
                js.append(dict(kind='long', n=n, conv=conv))
        js.append(dict(kind='nearbase'))
        js.append(dict(kind='basemut'))      # leftover-state probe: the same base object used again after it was edited in place
        return js

    def patches(self, job):
        return std_patches([COORDS, TRK], math=True, ints=False, math_obj=TrigMath())

    def _base(self, eng, inp, kind):
        oc = sys.modules[COORDS]
        sym = inp is None
        g = (lambda nm, lo, hi: eng.real(nm, lo, hi)) if sym else (lambda nm, lo, hi: float(inp[nm]))
        if kind == 'ecef':
            b = oc.ECEFCoords(g('bX', -7e6, 7e6), g('bY', -7e6, 7e6), g('bZ', -7e6, 7e6))
            if sym:
                self._off_centre(eng, b)
            return b
        return oc.GeoCoords(g('blon', -180, 180), g('blat', -89.9, 89.9), g('bh', -1000, 10000))

    def _long_points(self, eng, inp, n):
        """n geographic points along a climbing route (heights 150..900 m) and n ECEF points; observations 1 and n-2 are symbolic"""
        oc = sys.modules[COORDS]
        geo, ecef = [], []
        for i in range(n):
            if i in (1, n - 2):
                if inp is None:
                    lon, lat, h = eng.real('lon%d' % i, 2.0, 3.0), eng.real('lat%d' % i, 48.0, 49.0), eng.real('h%d' % i, 100, 9000)
                    x, y, z = eng.real('x%d' % i, 4.19e6, 4.21e6), eng.real('y%d' % i, 1.6e5, 1.8e5), eng.real('z%d' % i, 4.77e6, 4.79e6)
                else:
                    lon, lat, h = float(inp['lon%d' % i]), float(inp['lat%d' % i]), float(inp['h%d' % i])
                    x, y, z = float(inp['x%d' % i]), float(inp['y%d' % i]), float(inp['z%d' % i])
            else:
                lon, lat, h = 2.25 + 0.003125 * i, 48.75 + 0.001953125 * ((i * 7) % 11), 150.0 + 23.5 * ((i * 5) % 33)
                x, y, z = 4.2e6 + 250.0 * i, 1.7e5 - 125.5 * ((i * 3) % 17), 4.78e6 + 75.25 * ((i * 11) % 13)
            geo.append(oc.GeoCoords(lon, lat, h))
            ecef.append(oc.ECEFCoords(x, y, z))
        return geo, ecef

    @staticmethod
    def _off_centre(eng, b):
        """a base is a point near the Earth's surface, not its centre: one Earth-centred coordinate is at least 3.6e6 m in magnitude
        (every point of the ellipsoid has one >= 6.3e6 / sqrt(3)); keeps degenerate models (0, 0, 0) out of the concrete judgement"""
        cs = []
        for v in (b.X, b.Y, b.Z):
            cs += [zreal(v) >= 3.6e6, zreal(v) <= -3.6e6]
        eng.assume(z3.Or(cs))
        # ... and not within ~20 km of the polar axis (the property excludes the poles: |lat| <= 89.9)
        eng.assume(z3.Or(zreal(b.X) >= 2e4, zreal(b.X) <= -2e4, zreal(b.Y) >= 2e4, zreal(b.Y) <= -2e4))

    def path(self, ctx, job):
        eng = ctx.eng
        oc = sys.modules[COORDS]
        kind = job['kind']
        try:
            if kind == 'wgs84':
                lon, lat, h = eng.real('lon', -180, 180), eng.real('lat', -89.9, 89.9), eng.real('h', -1000, 10000)
                p = oc.GeoCoords(lon, lat, h).toECEFCoords()
                ctx.reach()
                e_mod = math.sqrt(oc.Fe * (2 - oc.Fe))
                e2 = 2 * F_WGS84 - F_WGS84 ** 2
                if abs(e_mod * e_mod - e2) > 1e-15 or oc.Re != A_WGS84 or abs(oc.Fe - F_WGS84) > 1e-18:
                    ctx.fail('the ellipsoid constants are not the WGS84 values')
                    return
                m = TrigMath()
                sl, cl = m.sin(lon * math.pi / 180.0), m.cos(lon * math.pi / 180.0)
                sp, cp = m.sin(lat * math.pi / 180.0), m.cos(lat * math.pi / 180.0)
                r = eng.fresh_real('w')
                e2q = core.zreal(e_mod) * core.zreal(e_mod)
                eng.assume(z3.And(r > 0, r * r == 1 - e2q * sp.z * sp.z), check=False)
                # lemma: the root the code takes (same argument term => memoised variable) equals the oracle's own root
                rc = core.sym_sqrt(1 - (e_mod * sp) ** 2)
                ctx.lemma(zreal(rc) == r, 5000)
                N = core.zreal(A_WGS84) / r
                want = ((N + h.z) * cp.z * cl.z, (N + h.z) * cp.z * sl.z, ((1 - e2q) * N + h.z) * sp.z)
                got = (zreal(p.X), zreal(p.Y), zreal(p.Z))
                tol = z3.Q(1, 10 ** 6)       # 1 micrometre
                for a, b, nm in zip(got, want, 'XYZ'):
                    if ctx.lemma(a == b, 5000):
                        ctx.proved += 1
                        continue
                    if not ctx.prove(z3.And(a - b <= tol, b - a <= tol), 'the Earth-centred %s coordinate agrees with the closed-form WGS84 formula' % nm):
                        return
                return
            base = self._base(eng, None, job['base']) if 'base' in job else None
            if kind == 'rt_ecef':
                x, y, z = eng.real('x', -7e6, 7e6), eng.real('y', -7e6, 7e6), eng.real('z', -7e6, 7e6)
                enu = oc.ECEFCoords(x, y, z).toENUCoords(base)
                back = enu.toECEFCoords(base)
                ctx.reach()
                ctx.prove(z3.And(zreal(back.X) == x.z, zreal(back.Y) == y.z, zreal(back.Z) == z.z), 'ECEF -> ENU(base) -> ECEF(base) returns the original position for any base')
                return
            if kind == 'rt_enu':
                e, n, u = eng.real('e', -1e5, 1e5), eng.real('n', -1e5, 1e5), eng.real('u', -1e5, 1e5)
                ecef = oc.ENUCoords(e, n, u).toECEFCoords(base)
                back = ecef.toENUCoords(base)
                ctx.reach()
                ctx.prove(z3.And(zreal(back.E) == e.z, zreal(back.N) == n.z, zreal(back.U) == u.z), 'ENU -> ECEF(base) -> ENU(base) returns the original position for any base')
                return
            if kind == 'base0':
                loc = base.toENUCoords(base)
                ctx.reach()
                ctx.prove(z3.And(zreal(loc.E) == 0, zreal(loc.N) == 0, zreal(loc.U) == 0), 'the local coordinates of the base itself are (0, 0, 0)')
                return
            if kind == 'rebase':
                # ENU -> ENU re-basing of a whole track: every observation must be the point conversion (old recorded base -> new base)
                from tracklib.core import Track, Obs, ObsTime
                base2 = oc.ECEFCoords(eng.real('cX', -7e6, 7e6), eng.real('cY', -7e6, 7e6), eng.real('cZ', -7e6, 7e6))
                self._off_centre(eng, base2)
                p0 = (eng.real('x0', -7e6, 7e6), eng.real('y0', -7e6, 7e6), eng.real('z0', -7e6, 7e6))
                tr = Track([Obs(oc.ECEFCoords(*p0), ObsTime.readUnixTime(0.0))])
                tr.toENUCoords(base)
                old = tr.base
                mid = tr.getObs(0).position
                tr.toENUCoords(base2)
                ctx.reach()
                w = mid.toECEFCoords(old).toENUCoords(base2)      # via the Earth-centred frame: independent of ENUCoords.toENUCoords(base1, base2)
                g = tr.getObs(0).position
                if not ctx.prove(z3.And(zreal(g.E) == zreal(w.E), zreal(g.N) == zreal(w.N), zreal(g.U) == zreal(w.U)),
                                 're-basing a local track applies the point conversion from the recorded base to the new base'):
                    return
                bg = base2.toGeoCoords()
                rb = tr.base
                if not isinstance(rb, oc.GeoCoords):
                    ctx.fail('the track does not record the (geographic) base it used')
                    return
                ctx.prove(z3.And(zreal(rb.lon) == zreal(bg.lon), zreal(rb.lat) == zreal(bg.lat), zreal(rb.hgt) == zreal(bg.hgt)), 'after re-basing the track records the new base')
                return
            if kind == 'basemut':
                b = oc.GeoCoords(eng.real('blon', -170, 170), eng.real('blat', -80, 80), eng.real('bh', -1000, 9000))
                p = oc.GeoCoords(eng.real('lon', -180, 180), eng.real('lat', -89.9, 89.9), eng.real('h', -1000, 10000))
                p.toENUCoords(b)
                b.toENUCoords(b)
                b.lon, b.lat, b.hgt = b.lon + 0.5, b.lat - 0.25, b.hgt + 10.0        # the caller moves the reference point in place ...
                got = p.toENUCoords(b)                                                # ... and converts with the same object again
                fresh = oc.GeoCoords(b.lon, b.lat, b.hgt)
                want = p.toECEFCoords().toENUCoords(fresh.toECEFCoords())
                zero = b.toENUCoords(b)
                ctx.reach()
                if not ctx.prove(z3.And(zreal(got.E) == zreal(want.E), zreal(got.N) == zreal(want.N), zreal(got.U) == zreal(want.U)),
                                 'a conversion with a base object edited in place uses the base as it is now'):
                    return
                ctx.prove(z3.And(zreal(zero.E) == 0, zreal(zero.N) == 0, zreal(zero.U) == 0), 'the local coordinates of the (edited) base itself are (0, 0, 0)')
                return
            if kind == 'nearbase':
                # ENU -> ENU re-basing between two bases a few metres apart, of points tens of kilometres away
                from tracklib.core import Track, Obs, ObsTime
                b1 = oc.GeoCoords(2.0, 48.0, 100.0)
                b2 = oc.GeoCoords(2.0 + eng.real('dlon', -1e-4, 1e-4), 48.0 + eng.real('dlat', -1e-4, 1e-4), 100.0 + eng.real('dh', -5, 5))
                pts = [(eng.real('e', -1e5, 1e5), eng.real('n', -1e5, 1e5), eng.real('u', -1000, 1000)), (25000.0, -18000.0, 40.0)]
                tr = Track([Obs(oc.ENUCoords(*p), ObsTime.readUnixTime(float(i))) for i, p in enumerate(pts)], base=b1)
                tr.toENUCoords(b2)
                ctx.reach()
                for i, p in enumerate(pts):
                    w = oc.ENUCoords(*p).toECEFCoords(b1).toENUCoords(b2)
                    g = tr.getObs(i).position
                    if not ctx.prove(z3.And(zreal(g.E) == zreal(w.E), zreal(g.N) == zreal(w.N), zreal(g.U) == zreal(w.U)),
                                     're-basing between near bases applies the exact conversion through the Earth-centred frame'):
                        return
                return
            if kind == 'long':
                from tracklib.core import Track, Obs, ObsTime
                n, conv = job['n'], job['conv']
                geo, ecef = self._long_points(eng, None, n)
                base = oc.GeoCoords(2.3, 48.8, 60.0)
                src = geo if conv.startswith('geo') else ecef
                tr = Track([Obs(p.copy(), ObsTime.readUnixTime(float(i))) for i, p in enumerate(src)])
                if conv == 'geo2ecef':
                    tr.toECEFCoords()
                    want = [p.toECEFCoords() for p in geo]
                    names = ('X', 'Y', 'Z')
                elif conv == 'geo2enu':
                    tr.toENUCoords(base)
                    want = [p.toENUCoords(base) for p in geo]
                    names = ('E', 'N', 'U')
                elif conv == 'ecef2enu':
                    tr.toENUCoords(base)
                    want = [p.toENUCoords(base) for p in ecef]
                    names = ('E', 'N', 'U')
                else:
                    tr.toENUCoords(base)
                    mid = [tr.getObs(i).position.copy() for i in range(n)]
                    tr.toECEFCoords()
                    want = [p.toECEFCoords(base) for p in mid]
                    names = ('X', 'Y', 'Z')
                ctx.reach()
                if tr.size() != n:
                    ctx.fail('a whole-track conversion changed the number of observations')
                    return
                for i in range(n):
                    g = tr.getObs(i).position
                    if type(g).__name__ != type(want[i]).__name__:
                        ctx.fail('a whole-track conversion left an observation in another coordinate system')
                        return
                    if not ctx.prove(z3.And([zreal(getattr(g, a)) == zreal(getattr(want[i], a)) for a in names]),
                                     'a whole-track conversion of a long track applies the point conversion to every observation'):
                        return
                return
            if kind == 'track2':
                # a history: project, go back to ECEF with the recorded base, project again with ANOTHER base; the base recorded at
                # the end must be the second one, and the positions the point conversion of the intermediate ones with it
                from tracklib.core import Track, Obs, ObsTime
                base2 = oc.ECEFCoords(eng.real('cX', -7e6, 7e6), eng.real('cY', -7e6, 7e6), eng.real('cZ', -7e6, 7e6))
                self._off_centre(eng, base2)
                pts = [(eng.real('x%d' % i, -7e6, 7e6), eng.real('y%d' % i, -7e6, 7e6), eng.real('z%d' % i, -7e6, 7e6)) for i in range(1)]
                tr = Track([Obs(oc.ECEFCoords(*p), ObsTime.readUnixTime(float(i))) for i, p in enumerate(pts)])
                tr.toENUCoords(base)
                tr.toECEFCoords()
                mid = [tr.getObs(i).position for i in range(tr.size())]
                if tr.getSRID() != 'ECEF':
                    ctx.fail('the track is not back in ECEF coordinates')
                    return
                tr.toENUCoords(base2)
                ctx.reach()
                for i, p in enumerate(mid):
                    w = p.toENUCoords(base2)
                    g = tr.getObs(i).position
                    if not ctx.prove(z3.And(zreal(g.E) == zreal(w.E), zreal(g.N) == zreal(w.N), zreal(g.U) == zreal(w.U)),
                                     'a second whole-track projection applies the point conversion with the new base'):
                        return
                bg = base2.toGeoCoords()
                rb = tr.base
                if not isinstance(rb, oc.GeoCoords):
                    ctx.fail('the track does not record the (geographic) base it used')
                    return
                ctx.prove(z3.And(zreal(rb.lon) == zreal(bg.lon), zreal(rb.lat) == zreal(bg.lat), zreal(rb.hgt) == zreal(bg.hgt)),
                          'after a second projection the track records the base used by that projection')
                return
            if kind == 'track':
                from tracklib.core import Track, Obs, ObsTime
                pts = [(eng.real('x%d' % i, -7e6, 7e6), eng.real('y%d' % i, -7e6, 7e6), eng.real('z%d' % i, -7e6, 7e6)) for i in range(2)]
                tr = Track([Obs(oc.ECEFCoords(*p), ObsTime.readUnixTime(float(i))) for i, p in enumerate(pts)])
                tr.toENUCoords(base)
                ctx.reach()
                if tr.getSRID() != 'ENU':
                    ctx.fail('the track is not in local coordinates after toENUCoords')
                    return
                for i, p in enumerate(pts):
                    w = oc.ECEFCoords(*p).toENUCoords(base)
                    g = tr.getObs(i).position
                    if not ctx.prove(z3.And(zreal(g.E) == zreal(w.E), zreal(g.N) == zreal(w.N), zreal(g.U) == zreal(w.U)),
                                     'a whole-track conversion applies the point conversion with the same base to every observation'):
                        return
                bg = base.toGeoCoords()
                rb = tr.base
                if not isinstance(rb, oc.GeoCoords):
                    ctx.fail('the track does not record the (geographic) base it used')
                    return
                ctx.prove(z3.And(zreal(rb.lon) == zreal(bg.lon), zreal(rb.lat) == zreal(bg.lat), zreal(rb.hgt) == zreal(bg.hgt)), 'the track records the base it used')
                return
        except (core._Abort, core._Stop, core.Unsupported):
            raise
        except ZeroDivisionError:
            # cos(latitude of the base) == 0: the pole, excluded by the property; the path is outside the claim
            core.ENG.abort()
        except (Exception, SystemExit) as e:
            if isinstance(e, TypeError) and ('SReal' in str(e) or 'SInt' in str(e)):
                raise
            ctx.fail('%s raised %s' % (kind, type(e).__name__))

    def concrete(self, job, inp):
        oc = sys.modules[COORDS]
        kind = job['kind']
        try:
            if kind == 'wgs84':
                lon, lat, h = float(inp['lon']), float(inp['lat']), float(inp['h'])
                p = oc.GeoCoords(lon, lat, h).toECEFCoords()
                w = closed_form(lon, lat, h)
                if max(abs(p.X - w[0]), abs(p.Y - w[1]), abs(p.Z - w[2])) > 1e-4:
                    return dict(violation='GeoCoords(%r, %r, %r).toECEFCoords() = (%r, %r, %r), closed-form WGS84 gives %r' % (lon, lat, h, p.X, p.Y, p.Z, w))
                return dict(violation=None, outputs={})
            if kind == 'basemut':
                b = oc.GeoCoords(float(inp['blon']), float(inp['blat']), float(inp['bh']))
                p = oc.GeoCoords(float(inp['lon']), float(inp['lat']), float(inp['h']))
                p.toENUCoords(b)
                b.toENUCoords(b)
                b.lon, b.lat, b.hgt = b.lon + 0.5, b.lat - 0.25, b.hgt + 10.0
                got = p.toENUCoords(b)
                be = closed_form(b.lon, b.lat, b.hgt)
                w = rot_enu(*closed_form(p.lon, p.lat, p.hgt), be, b.lon, b.lat)
                if max(abs(got.E - w[0]), abs(got.N - w[1]), abs(got.U - w[2])) > 1e-3:
                    return dict(violation='%s converted with the base %s (edited in place after an earlier conversion) gives (%r, %r, %r), the rotation about that base gives %r' % (p, b, got.E, got.N, got.U, w))
                z0 = b.toENUCoords(b)
                if max(abs(z0.E), abs(z0.N), abs(z0.U)) > 1e-6:
                    return dict(violation='the edited base %s has local coordinates (%r, %r, %r)' % (b, z0.E, z0.N, z0.U))
                return dict(violation=None, outputs={})
            if kind == 'nearbase':
                from tracklib.core import Track, Obs, ObsTime
                b1 = oc.GeoCoords(2.0, 48.0, 100.0)
                b2 = oc.GeoCoords(2.0 + float(inp['dlon']), 48.0 + float(inp['dlat']), 100.0 + float(inp['dh']))
                pts = [(float(inp['e']), float(inp['n']), float(inp['u'])), (25000.0, -18000.0, 40.0)]
                tr = Track([Obs(oc.ENUCoords(*p), ObsTime.readUnixTime(float(i))) for i, p in enumerate(pts)], base=b1)
                tr.toENUCoords(b2)
                e1, e2 = b1.toECEFCoords(), b2.toECEFCoords()
                for i, p in enumerate(pts):
                    # independent reference: transpose of the base-1 rotation, then the base-2 rotation
                    lam, phi = math.radians(b1.lon), math.radians(b1.lat)
                    E, N, U = p
                    dx = -math.sin(lam) * E - math.sin(phi) * math.cos(lam) * N + math.cos(phi) * math.cos(lam) * U
                    dy = math.cos(lam) * E - math.sin(phi) * math.sin(lam) * N + math.cos(phi) * math.sin(lam) * U
                    dz = math.cos(phi) * N + math.sin(phi) * U
                    w = rot_enu(e1.X + dx, e1.Y + dy, e1.Z + dz, (e2.X, e2.Y, e2.Z), b2.lon, b2.lat)
                    g = tr.getObs(i).position
                    if max(abs(g.E - w[0]), abs(g.N - w[1]), abs(g.U - w[2])) > 1e-3:
                        return dict(violation='re-basing %r from %s to %s gives (%r, %r, %r), the rotations through the Earth-centred frame give %r' % (p, b1, b2, g.E, g.N, g.U, w))
                return dict(violation=None, outputs={})
            if kind == 'long':
                from tracklib.core import Track, Obs, ObsTime
                n, conv = job['n'], job['conv']
                geo, ecef = self._long_points(None, inp, n)
                base = oc.GeoCoords(2.3, 48.8, 60.0)
                be = base.toECEFCoords()
                src = geo if conv.startswith('geo') else ecef
                tr = Track([Obs(p.copy(), ObsTime.readUnixTime(float(i))) for i, p in enumerate(src)])
                if conv == 'geo2ecef':
                    tr.toECEFCoords()
                    want = [closed_form(p.lon, p.lat, p.hgt) for p in geo]
                elif conv == 'geo2enu':
                    tr.toENUCoords(base)
                    want = [rot_enu(*closed_form(p.lon, p.lat, p.hgt), (be.X, be.Y, be.Z), base.lon, base.lat) for p in geo]
                elif conv == 'ecef2enu':
                    tr.toENUCoords(base)
                    want = [rot_enu(p.X, p.Y, p.Z, (be.X, be.Y, be.Z), base.lon, base.lat) for p in ecef]
                else:
                    tr.toENUCoords(base)
                    tr.toECEFCoords()
                    want = [(p.X, p.Y, p.Z) for p in ecef]
                if tr.size() != n:
                    return dict(violation='%s of a %d-observation track returned %d observations' % (conv, n, tr.size()))
                for i in range(n):
                    g = tr.getObs(i).position
                    got = (g.getX(), g.getY(), g.getZ())
                    if max(abs(a - b) for a, b in zip(got, want[i])) > 1e-3:
                        return dict(violation='%s of a %d-observation track: observation %d (%s) became %r, the point conversion gives %r' % (conv, n, i, src[i], got, want[i]))
                return dict(violation=None, outputs={})
            base = self._base(None, inp, job['base'])
            bgeo = base.toGeoCoords()
            bec = base.toECEFCoords()
            if kind == 'rt_ecef':
                x, y, z = float(inp['x']), float(inp['y']), float(inp['z'])
                enu = oc.ECEFCoords(x, y, z).toENUCoords(base)
                w = rot_enu(x, y, z, (bec.X, bec.Y, bec.Z), bgeo.lon, bgeo.lat)
                if max(abs(enu.E - w[0]), abs(enu.N - w[1]), abs(enu.U - w[2])) > 1e-3:
                    return dict(violation='ECEF (%r, %r, %r) -> ENU with base %s gives (%r, %r, %r), the rotation by the base longitude / latitude gives %r' % (x, y, z, base, enu.E, enu.N, enu.U, w))
                back = enu.toECEFCoords(base)
                if max(abs(back.X - x), abs(back.Y - y), abs(back.Z - z)) > 1e-3:
                    return dict(violation='ECEF (%r, %r, %r) -> ENU -> ECEF with base %s returns (%r, %r, %r)' % (x, y, z, base, back.X, back.Y, back.Z))
                return dict(violation=None, outputs={})
            if kind == 'rt_enu':
                e, n, u = float(inp['e']), float(inp['n']), float(inp['u'])
                ecef = oc.ENUCoords(e, n, u).toECEFCoords(base)
                back = ecef.toENUCoords(base)
                if max(abs(back.E - e), abs(back.N - n), abs(back.U - u)) > 1e-3:
                    return dict(violation='ENU (%r, %r, %r) -> ECEF -> ENU with base %s returns (%r, %r, %r)' % (e, n, u, base, back.E, back.N, back.U))
                w = rot_enu(ecef.X, ecef.Y, ecef.Z, (bec.X, bec.Y, bec.Z), bgeo.lon, bgeo.lat)
                if max(abs(w[0] - e), abs(w[1] - n), abs(w[2] - u)) > 1e-3:
                    return dict(violation='ENU (%r, %r, %r) -> ECEF with base %s gives (%r, %r, %r), which the reference rotation maps to %r' % (e, n, u, base, ecef.X, ecef.Y, ecef.Z, w))
                return dict(violation=None, outputs={})
            if kind == 'base0':
                loc = base.toENUCoords(base)
                if max(abs(loc.E), abs(loc.N), abs(loc.U)) > 1e-6:
                    return dict(violation='the base %s has local coordinates (%r, %r, %r)' % (base, loc.E, loc.N, loc.U))
                return dict(violation=None, outputs={})
            if kind == 'rebase':
                from tracklib.core import Track, Obs, ObsTime
                base2 = oc.ECEFCoords(float(inp['cX']), float(inp['cY']), float(inp['cZ']))
                p = (float(inp['x0']), float(inp['y0']), float(inp['z0']))
                tr = Track([Obs(oc.ECEFCoords(*p), ObsTime.readUnixTime(0.0))])
                tr.toENUCoords(base)
                tr.toENUCoords(base2)
                b2 = base2.toGeoCoords()
                rb = tr.base
                if not isinstance(rb, oc.GeoCoords) or max(abs(rb.lon - b2.lon), abs(rb.lat - b2.lat), abs(rb.hgt - b2.hgt)) > 1e-9:
                    return dict(violation='track re-based from %s to %s records the base %s' % (base, base2, rb))
                w = rot_enu(p[0], p[1], p[2], (base2.X, base2.Y, base2.Z), b2.lon, b2.lat)
                g = tr.getObs(0).position
                if max(abs(g.E - w[0]), abs(g.N - w[1]), abs(g.U - w[2])) > 1e-2:
                    return dict(violation='re-basing %r from %s to %s gives (%r, %r, %r), expected %r' % (p, base, base2, g.E, g.N, g.U, w))
                return dict(violation=None, outputs={})
            if kind == 'track2':
                from tracklib.core import Track, Obs, ObsTime
                base2 = oc.ECEFCoords(float(inp['cX']), float(inp['cY']), float(inp['cZ']))
                p = (float(inp['x0']), float(inp['y0']), float(inp['z0']))
                tr = Track([Obs(oc.ECEFCoords(*p), ObsTime.readUnixTime(0.0))])
                tr.toENUCoords(base)
                tr.toECEFCoords()
                tr.toENUCoords(base2)
                b2 = base2.toGeoCoords()
                rb = tr.base
                if not isinstance(rb, oc.GeoCoords) or max(abs(rb.lon - b2.lon), abs(rb.lat - b2.lat), abs(rb.hgt - b2.hgt)) > 1e-9:
                    return dict(violation='track projected with base %s and then with base %s records the base %s' % (base, base2, rb))
                w = rot_enu(p[0], p[1], p[2], (base2.X, base2.Y, base2.Z), b2.lon, b2.lat)
                g = tr.getObs(0).position
                if max(abs(g.E - w[0]), abs(g.N - w[1]), abs(g.U - w[2])) > 1e-2:
                    return dict(violation='second projection of %r with base %s gives (%r, %r, %r), expected %r' % (p, base2, g.E, g.N, g.U, w))
                return dict(violation=None, outputs={})
            if kind == 'track':
                from tracklib.core import Track, Obs, ObsTime
                pts = [(float(inp['x%d' % i]), float(inp['y%d' % i]), float(inp['z%d' % i])) for i in range(2)]
                tr = Track([Obs(oc.ECEFCoords(*p), ObsTime.readUnixTime(float(i))) for i, p in enumerate(pts)])
                tr.toENUCoords(base)
                for i, p in enumerate(pts):
                    w = rot_enu(p[0], p[1], p[2], (bec.X, bec.Y, bec.Z), bgeo.lon, bgeo.lat)
                    g = tr.getObs(i).position
                    if max(abs(g.E - w[0]), abs(g.N - w[1]), abs(g.U - w[2])) > 1e-3:
                        return dict(violation='track.toENUCoords(%s): observation %d %r became (%r, %r, %r), expected %r' % (base, i, p, g.E, g.N, g.U, w))
                rb = tr.base
                if not isinstance(rb, oc.GeoCoords) or max(abs(rb.lon - bgeo.lon), abs(rb.lat - bgeo.lat), abs(rb.hgt - bgeo.hgt)) > 1e-9:
                    return dict(violation='track.toENUCoords(%s) recorded the base %s' % (base, rb))
                return dict(violation=None, outputs={})
        except ZeroDivisionError:
            return dict(violation=None, outputs={})
        except (Exception, SystemExit) as e:
            return dict(violation='%s raised %s: %s (inputs %r)' % (kind, type(e).__name__, e, inp))


CHECK = C14()
