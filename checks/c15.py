"""C15 — kernel smoothing is a renormalised local weighted mean."""
import sys
import math
import z3
from symx.runner import Check
from symx import core
from symx.core import zreal
from symx.lifts import std_patches, SymNumpy

OPS = 'tracklib.core.operators'
KER = 'tracklib.core.kernel'
FIL = 'tracklib.algo.filtering'
TRK = 'tracklib.core.track'
UTL = 'tracklib.core.utils'

LISTS = {'w5': [1.0, 2.0, 4.0, 2.0, 1.0], 'w5b': [0.5, 3.0, 1.0, 0.25, 2.0], 'w7': [1.0, 1.0, 2.0, 3.0, 2.0, 1.0, 1.0]}
# scale probes: long windows (9..21 weights) on long signals (fixed values except a few symbolic samples, one or two interior NaN)
LONGLISTS = {'w9': [1.0, 2.0, 3.0, 4.0, 5.0, 4.0, 3.0, 2.0, 1.0], 'w9b': [0.5, 1.0, 0.25, 2.0, 1.5, 3.0, 0.75, 1.0, 2.5], 'w11': [1.0] * 11,
             'w15': [1.0, 1.0, 2.0, 2.0, 3.0, 3.0, 4.0, 5.0, 4.0, 3.0, 3.0, 2.0, 2.0, 1.0, 1.0], 'w21': [float(1 + (j * 3) % 5) for j in range(21)]}
LISTS.update(LONGLISTS)
KCLASSES = ['UniformKernel', 'TriangularKernel', 'GaussianKernel', 'ExponentialKernel', 'EpanechnikovKernel', 'CubicKernel', 'SphericKernel']


def isnan(v):
    return isinstance(v, float) and v != v


def mk_track(n, xs=None, feat=None):
    from tracklib.core import Track, Obs, ENUCoords, ObsTime
    xs = xs or [float(i) for i in range(n)]
    tr = Track([Obs(ENUCoords(xs[i], 2.0 * i, 1.0), ObsTime.readUnixTime(float(i))) for i in range(n)])
    if feat is not None:
        tr.createAnalyticalFeature('a', list(feat))
    return tr


def exp_axioms(x, out):
    return [out.z > 0]


class C15(Check):
    id = 'C15'
    title = 'Kernel smoothing is a renormalised local weighted mean'
    functions = ['operators.Filter.execute', 'Track.operate', 'filtering.filter_seq', 'kernel.Kernel.toSlidingWindow', 'kernel.Kernel.evaluate', 'kernel.*Kernel.__init__']
    stubs = ['operators.np rebound: np.array / np.sum on object arrays (weights may be symbolic)', 'kernel.np rebound: np.vectorize applies the Python function directly to a scalar and returns a 0-d object array',
             'kernel.math rebound: exp of a symbolic argument is an uninterpreted function (memoised per argument term, congruent, positive); pow with integer exponents exact',
             'float / int rebound to lifted classes in kernel, operators, track, utils']
    assumptions = ['signal values symbolic reals in [-10, 10]; NaN patterns are enumerated and isolated (no two adjacent NaN), as the property quantifies',
                   'window 3: three symbolic positive weights in [1/8, 8]; windows 5 and 7: concrete catalogue %s; kernel objects with concrete width for filtering' % LISTS,
                   'sliding window of the built-in non-negative kernels %s with a SYMBOLIC width in [1, 2.5]: odd length, symmetric, sums to 1, non-negative' % KCLASSES]
    outside = ['Filter_FFT', 'windows longer than 21', 'kernels with negative lobes (sinc)', 'numerical values of exp', 'windows in which every sample is NaN or outside the track, or whose remaining weights sum to 0']
    budget = {'quick': 200, 'thorough': 1800}

    def bounds(self, tier):
        q = tier == 'quick'
        return dict(window3='n = 3..%d, all isolated-NaN patterns, symbolic weights' % (4 if q else 6), catalogue_windows='n = window..window+%d' % (1 if q else 2),
                    kernel_objects=['GaussianKernel(1)', 'TriangularKernel(2)', 'UniformKernel(1)', 'DiracKernel'], boundary=[False, True], apis=['operate(FILTER) on a feature', 'filter_seq on x', 'filter_seq on x and y'], integer_signals=[[5, 5, 5, 5], [0, 3, 6, 9, 12]],
                    sliding_window='7 kernel classes, symbolic width')

    def jobs(self, tier, seed):
        q = tier == 'quick'
        js = []
        for n in range(3, (4 if q else 6) + 1):
            pats = [p for p in range(2 ** n) if not any((p >> i) & 1 and (p >> (i + 1)) & 1 for i in range(n - 1))]
            for p in pats:
                js.append(dict(kind='filt', n=n, ker='sym3', nan=[(p >> i) & 1 for i in range(n)], api='operate'))
            js.append(dict(kind='filt', n=n, ker='sym3', nan=[0] * n, api='seq'))
            js.append(dict(kind='const', n=n, ker='sym3'))
        for name in (['w9', 'w9b', 'w15'] if q else sorted(LONGLISTS)):
            N = len(LISTS[name])
            for n in ([N + 12] if q else [N, N + 1, N + 12, 3 * N]):
                for nanidx in ([], [N // 2 + 3], [1, n - 3]):
                    nan = [1 if i in nanidx else 0 for i in range(n)]
                    js.append(dict(kind='filt', n=n, ker=name, nan=nan, api='operate', long=[N // 2 + 2, N // 2 + 4, n - 2]))
                js.append(dict(kind='filt', n=n, ker=name, nan=[1 if i == N // 2 + 3 else 0 for i in range(n)], api='seq', long=[N // 2 + 2, n - 2]))
        for kname in ('G2', 'T5', 'U4'):
            for b in (False, True):
                n = 40
                js.append(dict(kind='filt', n=n, ker=kname, nan=[1 if i in (12, 30) else 0 for i in range(n)], api='operate' if b else 'seq', boundary=b, long=[11, 13, 38]))
                if not q:
                    js.append(dict(kind='filt', n=n, ker=kname, nan=[0] * n, api='seqxy', boundary=b, long=[11, 13, 38]))
        for name, w in LISTS.items():
            if name in LONGLISTS:
                continue
            for n in range(len(w), len(w) + (2 if q else 3)):
                js.append(dict(kind='filt', n=n, ker=name, nan=[0] * n, api='operate'))
                js.append(dict(kind='filt', n=n, ker=name, nan=[0, 1] + [0] * (n - 2), api='operate'))
        for kname in ('G1', 'T2', 'U1', 'Dirac'):
            for b in (False, True):
                js.append(dict(kind='filt', n=6 if q else 8, ker=kname, nan=[0] * (6 if q else 8), api='operate', boundary=b))
                if kname != 'Dirac':     # a NaN under the only non-zero weight of the Dirac window leaves a zero total weight: undefined, outside the claim
                    js.append(dict(kind='filt', n=6 if q else 8, ker=kname, nan=[0, 0, 1] + [0] * ((6 if q else 8) - 3), api='seq' if not b else 'operate', boundary=b))
        for kname in ('G1', 'T2'):
            for b in (False, True):
                js.append(dict(kind='filt', n=6, ker=kname, nan=[0] * 6, api='seqxy', boundary=b))     # filter_seq over two dimensions
        for sig in ([5, 5, 5, 5], [0, 3, 6, 9, 12]):
            js.append(dict(kind='filt', n=len(sig), ker='sym3', nan=[0] * len(sig), api='operate', ints=sig))   # integer-typed samples (counts, integer heights)
            js.append(dict(kind='filt', n=len(sig), ker='w5' if len(sig) >= 5 else 'sym3', nan=[0] * len(sig), api='seq', ints=sig))
        for kc in KCLASSES:
            js.append(dict(kind='window', kc=kc))
            js.append(dict(kind='window', kc=kc, again=True))      # aliasing probe: the list returned by an earlier call is edited by the caller
        return js

    def patches(self, job):
        m = core.SymMath({'exp': exp_axioms})
        p = std_patches([OPS, KER, TRK, UTL], math=True, ints=True, math_obj=m)
        p += [(OPS, 'np', SymNumpy()), (KER, 'np', SymNumpy())]
        return p

    def _kernel(self, eng, inp, job):
        """returns (kernel argument, weights used by the oracle (list), filters boundary?)"""
        k = job['ker']
        ker = sys.modules[KER]
        if k == 'sym3':
            if inp is None:
                w = [eng.real('w%d' % j, 0.125, 8) for j in range(3)]
            else:
                w = [float(inp['w%d' % j]) for j in range(3)]
            return list(w), list(w), False
        if k in LISTS:
            return list(LISTS[k]), list(LISTS[k]), False
        obj = {'G2': lambda: ker.GaussianKernel(2), 'T5': lambda: ker.TriangularKernel(5), 'U4': lambda: ker.UniformKernel(4), 'G1': lambda: ker.GaussianKernel(1), 'T2': lambda: ker.TriangularKernel(2), 'U1': lambda: ker.UniformKernel(1), 'Dirac': lambda: ker.DiracKernel()}[k]()
        obj.setFilterBoundary(bool(job.get('boundary')))
        # the oracle samples the kernel function itself at the integer offsets (independent of toSlidingWindow)
        if k == 'Dirac':
            w = [0.0, 1.0, 0.0]
        else:
            half = int(obj.support)
            f = obj.getFunction()
            w = [f(float(d)) * (1.0 if abs(d) <= obj.support else 0.0) for d in range(half, -half - 1, -1)]
        return obj, w, bool(job.get('boundary'))

    def _signal(self, eng, inp, job):
        n = job['n']
        out = []
        if job.get('ints'):
            return list(job['ints'])
        for i in range(n):
            if job['nan'][i]:
                out.append(float('nan'))
            elif job.get('long') is not None and i not in job['long']:
                out.append(float(((i * 7) % 13) - 6) * 0.75)
            elif inp is None:
                out.append(eng.real('x%d' % i, -10, 10))
            else:
                out.append(float(inp['x%d' % i]))
        return out

    def _apply(self, job, sig, karg):
        Operator = sys.modules[OPS].Operator
        n = job['n']
        if job['api'] == 'operate':
            tr = mk_track(n, feat=sig)
            tr.operate(Operator.FILTER, 'a', karg, 'out')
            return tr, tr.getAnalyticalFeature('out'), tr.getAnalyticalFeature('a')
        fil = sys.modules[FIL]
        tr = mk_track(n, xs=list(sig))
        if job['api'] == 'seqxy':
            ys = tr.getY()
            res = fil.filter_seq(tr, karg, ['x', 'y'])
            self._second = (ys, res.getY())
            return res, res.getX(), None
        res = fil.filter_seq(tr, karg, ['x'])
        return res, res.getX(), None

    def path(self, ctx, job):
        eng = ctx.eng
        try:
            if job['kind'] == 'window':
                ker = sys.modules[KER]
                wd = eng.real('width', 1, 2.5)
                k = getattr(ker, job['kc'])(wd)
                if job.get('again'):
                    w1 = k.toSlidingWindow()
                    for i in range(len(w1)):
                        w1[i] = w1[i] * 3 + 1 + i          # the caller reuses the list it received (e.g. as a weight list it rescales)
                    k = getattr(ker, job['kc'])(wd) if len(w1) % 2 else k
                win = k.toSlidingWindow()
                ctx.reach()
                n = len(win)
                ctx.observe(n=n)
                if n % 2 != 1:
                    ctx.fail('the sliding window does not have an odd length')
                    return
                wz = [zreal(v) for v in win]
                if not ctx.prove(z3.And([wz[i] == wz[n - 1 - i] for i in range(n // 2)]) if n > 1 else True, 'the sliding window is symmetric'):
                    return
                if not ctx.prove(z3.Sum(wz) == 1 if n > 1 else wz[0] == 1, 'the sliding window sums to 1'):
                    return
                return
            n = job['n']
            if job['kind'] == 'const':
                c = eng.real('c', -10, 10)
                sig = [c] * n
                karg, w, bnd = self._kernel(eng, None, job)
                tr, out, _ = self._apply(dict(job, api='operate'), sig, karg)
                ctx.reach()
                ctx.prove(z3.And([zreal(o) == c.z for o in out]), 'a constant signal is unchanged')
                return
            sig = self._signal(eng, None, job)
            karg, w, bnd = self._kernel(eng, None, job)
            w = list(w)
            tr, out, a_after = self._apply(job, list(sig), karg)
            ctx.reach()
            ctx.observe(out=list(out))
            if len(out) != n:
                ctx.fail('the filter does not return one value per observation')
                return
            if a_after is not None and any(p is not q for p, q in zip(a_after, sig)):
                ctx.fail('filtering into another feature modified the input feature')
                return
            N = len(w)
            D = N // 2
            if job['api'] == 'seqxy':
                # the second filtered dimension (concrete y = 0, 2, 4, ...): same contract, evaluated with plain numbers
                ys, oy = self._second
                for i in range(n):
                    if not bnd and (i < D or i >= n - D):
                        if oy[i] != ys[i]:
                            ctx.fail('a boundary value of the second dimension is not returned unchanged')
                            return
                        continue
                    J = [j for j in range(N) if 0 <= i - j + D < n]
                    want = sum(w[j] * ys[i - j + D] for j in J) / sum(w[j] for j in J)
                    if abs(oy[i] - want) > 1e-9 * (1 + abs(want)):
                        ctx.fail('the second filtered dimension is not the renormalised weighted mean (boundary setting lost?)')
                        return
            for i in range(n):
                if not bnd and (i < D or i >= n - D):
                    if out[i] is not sig[i] and not (isnan(out[i]) and isnan(sig[i])) and not (job.get('ints') and out[i] == sig[i]):
                        ctx.fail('a boundary value is not returned unchanged although the kernel does not filter boundaries')
                        return
                    continue
                J = [j for j in range(N) if 0 <= i - j + D < n and not isnan(sig[i - j + D])]
                if not J or isnan(out[i]):
                    if J or not isnan(out[i]):
                        ctx.fail('NaN output although the window holds numeric samples')
                        return
                    continue
                sw = z3.Sum([zreal(w[j]) for j in J]) if len(J) > 1 else zreal(w[J[0]])
                swx = z3.Sum([zreal(w[j]) * zreal(sig[i - j + D]) for j in J]) if len(J) > 1 else zreal(w[J[0]]) * zreal(sig[i - J[0] + D])
                tol = z3.RealVal(0) if job['ker'] == 'sym3' else z3.Q(1, 10 ** 9) * (1 + z3.If(swx >= 0, swx, -swx))
                if not ctx.prove(z3.And(zreal(out[i]) * sw - swx <= tol, swx - zreal(out[i]) * sw <= tol),
                                 'the output is the weighted mean of the in-range, non-NaN samples of the window with renormalised weights'):
                    return
        except (core._Abort, core._Stop, core.Unsupported):
            raise
        except (Exception, SystemExit) as e:
            if isinstance(e, TypeError) and ('SReal' in str(e) or 'SInt' in str(e) or 'SBool' in str(e)):
                raise
            ctx.fail('%s raised %s' % ('toSlidingWindow' if job['kind'] == 'window' else 'filtering', type(e).__name__))

    def concrete(self, job, inp):
        try:
            if job['kind'] == 'window':
                ker = sys.modules[KER]
                wd = float(inp['width'])
                if job.get('again'):
                    k0 = getattr(ker, job['kc'])(wd)
                    w1 = k0.toSlidingWindow()
                    for i in range(len(w1)):
                        w1[i] = w1[i] * 3 + 1 + i
                    k0.toSlidingWindow()
                win = getattr(ker, job['kc'])(wd).toSlidingWindow()
                n = len(win)
                out = dict(n=n)
                if n % 2 != 1 or any(abs(win[i] - win[n - 1 - i]) > 1e-9 for i in range(n // 2)) or abs(sum(win) - 1) > 1e-9 or any(v < 0 for v in win):
                    return dict(violation='%s(%r).toSlidingWindow() = %r' % (job['kc'], wd, win), outputs=out)
                return dict(violation=None, outputs=out)
            n = job['n']
            if job['kind'] == 'const':
                c = float(inp['c'])
                karg, w, bnd = self._kernel(None, inp, job)
                tr, out, _ = self._apply(dict(job, api='operate'), [c] * n, karg)
                if any(abs(o - c) > 1e-9 * (1 + abs(c)) for o in out):
                    return dict(violation='constant signal %r with weights %r filtered to %r' % (c, w, out))
                return dict(violation=None, outputs={})
            sig = self._signal(None, inp, job)
            karg, w, bnd = self._kernel(None, inp, job)
            w = list(w)
            tr, out, a_after = self._apply(job, list(sig), karg)
            N, D = len(w), len(w) // 2
            desc = 'signal %r, kernel %s %r (boundary filtered: %r) -> %r' % (sig, job['ker'], w, bnd, out)
            if job['api'] == 'seqxy':
                ys, oy = self._second
                for i in range(n):
                    if not bnd and (i < D or i >= n - D):
                        want = ys[i]
                    else:
                        J = [j for j in range(N) if 0 <= i - j + D < n]
                        want = sum(w[j] * ys[i - j + D] for j in J) / sum(w[j] for j in J)
                    if abs(oy[i] - want) > 1e-9 * (1 + abs(want)):
                        return dict(violation='filter_seq over x and y, kernel %s (boundary filtered: %r): y %r -> %r, index %d should be %r' % (job['ker'], bnd, ys, oy, i, want))
            for i in range(n):
                if not bnd and (i < D or i >= n - D):
                    if not (out[i] == sig[i] or (isnan(out[i]) and isnan(sig[i]))):
                        return dict(violation='%s: boundary value %d changed' % (desc, i), outputs=dict(out=out))
                    continue
                J = [j for j in range(N) if 0 <= i - j + D < n and not isnan(sig[i - j + D])]
                if not J:
                    continue
                want = sum(w[j] * sig[i - j + D] for j in J) / sum(w[j] for j in J)
                if not (abs(out[i] - want) <= 1e-9 * (1 + abs(want))):
                    return dict(violation='%s: index %d should be the renormalised weighted mean %r' % (desc, i, want), outputs=dict(out=out))
            return dict(violation=None, outputs=dict(out=out))
        except (Exception, SystemExit) as e:
            return dict(violation='%s raised %s: %s (inputs %r)' % (job['kind'], type(e).__name__, e, inp))


CHECK = C15()
