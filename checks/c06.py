"""C06 — network shortest distances are the true minimum over permitted walks (Dijkstra + priority_dict)."""
import random
import z3
from symx.runner import Check
from symx import core
from symx.core import zreal
from checks import netlib

NET = 'tracklib.core.network'
WMAX = 1000


def core_is_num(v):
    from symx import core
    return core.is_sym(v) or (isinstance(v, (int, float)) and not isinstance(v, bool))


def _nodes(topo, base=('n0', 'n1', 'n2')):
    ns = list(base)
    for a, b, _ in topo:
        for n in (a, b):
            if n not in ns:
                ns.append(n)
    return ns


class C06(Check):
    id = 'C06'
    title = 'Network shortest distances are the true minimum over permitted walks'
    functions = ['Network.run_routing_forward', 'Network.shortest_distance', 'Network.all_shortest_distances', 'Network.prepare',
                 'Network.prepared_shortest_distance', 'Network.addEdge', 'utils.priority_dict']
    stubs = ['none: heapq / dict / tuple comparison call back into the proxies; progressbar not used (verbose=False)']
    assumptions = ['edge weights are reals with 0 <= w <= 1000 (non-negative by the property; the default cut-off 1e300 makes an upper bound a documented precondition)',
                   'oracle: minimum over all simple permitted walks enumerated on the concrete topology (sufficient for non-negative weights)']
    outside = ['A* mode', 'negative weights', 'weights >= 1e300', 'topologies beyond the enumerated / sampled ones']
    budget = {'quick': 170, 'thorough': 2400}

    def bounds(self, tier):
        return dict(topologies='all multigraphs with 1..3 edges on <= 3 nodes (self-loops, parallel edges, 3 orientations: 27 + 378 + 3654), every source'
                               + ('; early-stop (target) form on all 1-2 edge and a seeded third of the 3-edge topologies' if tier == 'quick' else
                                  '; early-stop form on all; 600 seeded topologies with 4-5 nodes / 4-7 edges, two-way K4, a mixed 5-node graph'),
                    weights='symbolic reals in [0,1000] per edge (zeros and ties are ordinary solutions)', cut='symbolic real in [0,3000]',
                    unrollings='Dijkstra main loop and heap operations fully explored for these sizes')

    def jobs(self, tier, seed):
        rng = random.Random(seed)
        N3 = ['n0', 'n1', 'n2']
        js = []
        topos = []
        for k in (1, 2, 3):
            topos += netlib.topologies(N3, k)
        for ti, topo in enumerate(topos):
            for s in N3:
                js.append(dict(kind='cut', topo=topo, s=s))
            full_targets = tier == 'thorough' or len(topo) < 3 or rng.random() < 0.34
            if full_targets:
                for s in N3:
                    for t in N3:
                        js.append(dict(kind='target', topo=topo, s=s, t=t))
        # value-kind probes: nodes and edges identified by the integers 0, 1, 2 (an id equal to 0 is falsy)
        for ti, topo in enumerate(netlib.topologies(N3, 1) + netlib.topologies(N3, 2) + (netlib.topologies(N3, 3)[::7] if tier != 'quick' else netlib.topologies(N3, 3)[::97])):
            it = netlib.int_ids(topo)
            for s_ in (0, 1, 2):
                for t_ in (0, 1, 2):
                    if len(topo) == 1 or (ti + s_ + t_) % 3 == 0 or tier != 'quick':
                        js.append(dict(kind='target', topo=it, s=s_, t=t_, ids='int'))
            if len(topo) == 1 or ti % 5 == 0:
                js.append(dict(kind='all', topo=it, ids='int'))
                js.append(dict(kind='cut', topo=it, s=0, ids='int'))
        for k in range(len(self.PD_SCRIPTS) if tier == 'thorough' else 2):
            js.append(dict(kind='pdict', script=k, topo=[]))
        for topo in netlib.topologies(N3, 1) + netlib.topologies(N3, 2)[::3]:
            js.append(dict(kind='all', topo=topo))
        for topo in rng.sample(netlib.topologies(N3, 3), 60 if tier == 'quick' else 400):
            js.append(dict(kind='all', topo=topo))
        js.sort(key=lambda j: 0 if (j.get('ids') or j['kind'] in ('pdict', 'all')) else 1)      # probes, unit jobs and all-pairs jobs first: the target / cut enumeration may run into the budget
        if tier == 'thorough':
            extra = []
            for _ in range(600):
                nn = rng.choice((4, 4, 5))
                extra.append(netlib.random_topology(rng, nn, rng.randint(4, 7)))
            N4 = ['n0', 'n1', 'n2', 'n3']
            extra.append([(a, b, 0) for i, a in enumerate(N4) for b in N4[i + 1:]])   # two-way K4
            extra.append([('n0', 'n1', 1), ('n1', 'n2', 0), ('n2', 'n3', -1), ('n3', 'n4', 0), ('n4', 'n0', 1), ('n1', 'n3', 0), ('n0', 'n2', -1)])
            for topo in extra:
                ns = _nodes(topo)
                for s in ns:
                    js.append(dict(kind='cut', topo=topo, s=s))
                s, t = rng.choice(ns), rng.choice(ns)
                js.append(dict(kind='target', topo=topo, s=s, t=t))
        return js

    def patches(self, job):
        return []

    # the priority queue behind Dijkstra, exercised on its own: ('s', key index, value index) = set / update, ('p',) = pop_smallest.
    # Each script passes the 'heap larger than twice the live keys' clean-up point with several live keys.
    PD_SCRIPTS = [
        [('s', 0, 0), ('s', 1, 1), ('s', 2, 2), ('s', 0, 3), ('s', 1, 4), ('s', 2, 5), ('s', 0, 6), ('p',), ('s', 1, 7), ('p',), ('p',)],
        [('s', 0, 0), ('s', 1, 1), ('s', 0, 2), ('s', 1, 3), ('s', 0, 4), ('s', 2, 5), ('p',), ('p',), ('p',)],
        [('s', 0, 0), ('s', 1, 1), ('s', 2, 2), ('s', 3, 3), ('p',), ('s', 1, 4), ('s', 2, 5), ('s', 3, 6), ('s', 1, 7), ('p',), ('p',), ('p',)],
    ]

    # initial priorities are concrete in the long scripts (the updates stay symbolic): one path per consistent outcome of the heap comparisons
    PD_FIXED = [{0: 5, 1: 3, 2: 8}, {}, {0: 6, 1: 2, 2: 9, 3: 4}]

    def _pdict(self, ctx, job, vals, prove):
        """runs one script on the real priority_dict; returns a violation message or None"""
        from tracklib.core.utils import priority_dict
        pd = priority_dict()
        cur = {}
        for step, op in enumerate(self.PD_SCRIPTS[job['script']]):
            if op[0] == 's':
                k = 'k%d' % op[1]
                pd[k] = vals[op[2]]
                cur[k] = vals[op[2]]
            else:
                try:
                    k = pd.pop_smallest()
                except Exception as e:
                    return 'pop_smallest raised %s with live keys %r (step %d)' % (type(e).__name__, sorted(cur), step)
                if k not in cur:
                    return 'pop_smallest returned %r which is not a live key (step %d)' % (k, step)
                if not prove(k, cur):
                    return 'STOP' if prove.sym else 'pop_smallest returned %r (priority %r) although live priorities are %r (step %d)' % (k, cur[k], cur, step)
                del cur[k]
            if len(pd) != len(cur):
                return 'the queue holds %d keys, %d are live (step %d)' % (len(pd), len(cur), step)
        return None

    def _setup(self, ctx, job, style='plain'):
        eng = ctx.eng
        topo = [tuple(e) for e in job['topo']]
        W = [eng.real('w%d' % i, 0, WMAX) for i in range(len(topo))]
        ints = job.get('ids') == 'int'
        nodes = _nodes(topo, base=(0, 1, 2)) if ints else _nodes(topo)
        net = netlib.build(topo, W, nodes, style, int_edge_ids=ints)
        return topo, W, [w.z for w in W], nodes, net

    def path(self, ctx, job):
        eng = ctx.eng
        if job['kind'] == 'pdict':
            nv = 1 + max(op[2] for op in self.PD_SCRIPTS[job['script']] if op[0] == 's')
            fixed = self.PD_FIXED[job['script']]
            vals = [float(fixed[i]) if i in fixed else eng.real('v%d' % i, 0, WMAX) for i in range(nv)]

            def prove(k, cur):
                return ctx.prove(z3.And([zreal(cur[k]) <= zreal(cur[o]) for o in cur]), 'pop_smallest returns a live key of minimal priority')
            prove.sym = True
            v = self._pdict(ctx, job, vals, prove)
            ctx.reach()
            if v and v != 'STOP':
                import re
                ctx.fail(re.sub(r"\(step \d+\)|'k\d'|\[[^\]]*\]|\d+", '', v).strip())
            return
        topo, W, Wz, nodes, net = self._setup(ctx, job)
        kind = job['kind']
        if kind == 'target':
            s, t = job['s'], job['t']
            try:
                d = net.shortest_distance(s, t)
            except Exception as e:
                ctx.fail('shortest_distance raised %s: %s' % (type(e).__name__, e))
                return
            ctx.reach()
            if not (core_is_num(d)):
                ctx.fail('shortest_distance(source, target) did not return a number')
                return
            ctx.observe(d=d)
            sums = netlib.walk_sums(topo, s, t, Wz)
            if sums:
                ctx.prove(netlib.is_min(zreal(d), sums), 'shortest_distance(s,t) equals the minimum over permitted walks')
            else:
                ctx.prove(zreal(d) < 0, 'negative sentinel exactly when no permitted walk exists')
        elif kind == 'cut':
            s = job['s']
            cut = eng.real('cut', 0, 3 * WMAX)
            out = {}
            try:
                net.run_routing_forward(s, cut=cut, output_dict=out)
                lst = net.shortest_distance(s)
            except Exception as e:
                ctx.fail('routing raised %s: %s' % (type(e).__name__, e))
                return
            ctx.observe(keys=[int((s, t) in out) for t in nodes], lst=list(lst))
            ctx.reach()
            for i, t in enumerate(nodes):
                sums = netlib.walk_sums(topo, s, t, Wz)
                if (s, t) in out:
                    d = zreal(out[(s, t)])
                    if not sums:
                        ctx.fail('table holds a pair that no permitted walk joins')
                        return
                    if not ctx.prove(z3.And(netlib.is_min(d, sums), d <= cut.z), 'table entry is the true distance and does not exceed the cut-off'):
                        return
                elif sums:
                    if not ctx.prove(z3.And([x > cut.z for x in sums]), 'pair missing from the table although its true distance <= cut-off'):
                        return
                # list form (no target, default cut): 1e300-offset for unreachable nodes
                if sums:
                    if not ctx.prove(netlib.is_min(zreal(lst[i]), sums), 'shortest_distance(s) list entry equals the minimum'):
                        return
                else:
                    if not ctx.prove(zreal(lst[i]) >= 1e299, 'unreachable node reported >= 1e300 in the list form'):
                        return
            extra = [k for k in out if k[0] != s or k[1] not in nodes]
            if extra:
                ctx.fail('table holds foreign keys %r' % (extra,))
        elif kind == 'all':
            cut = eng.real('cut', 0, 3 * WMAX)
            try:
                first = net.all_shortest_distances()          # an earlier call with the default cut-off: its table must not leak into the next one
                out = net.all_shortest_distances(cut=cut)
                net.prepare(cut=cut, verbose=False)
            except Exception as e:
                ctx.fail('all_shortest_distances raised %s: %s' % (type(e).__name__, e))
                return
            ctx.observe(keys=[int((s, t) in out) for s in nodes for t in nodes])
            ctx.reach()
            for s in nodes:
                for t in nodes:
                    sums = netlib.walk_sums(topo, s, t, Wz)
                    if (s, t) in out:
                        if not sums:
                            ctx.fail('all-pairs table holds a pair that no permitted walk joins')
                            return
                        d = zreal(out[(s, t)])
                        if not ctx.prove(z3.And(netlib.is_min(d, sums), d <= cut.z), 'all-pairs entry is the true distance <= cut-off'):
                            return
                        if not ctx.prove(zreal(net.prepared_shortest_distance(s, t)) == d, 'prepare() table identical to all_shortest_distances'):
                            return
                    else:
                        if sums and not ctx.prove(z3.And([x > cut.z for x in sums]), 'all-pairs table misses a pair within the cut-off'):
                            return
                        if net.has_prepared_shortest_distance(s, t):
                            ctx.fail('prepare() table holds a pair all_shortest_distances does not')
                            return
            if len(out) != len(net.DISTANCES):
                ctx.fail('prepare() table differs in size')

    # ------------------------------------------------------------------
    def concrete(self, job, inp):
        if job['kind'] == 'pdict':
            nv = 1 + max(op[2] for op in self.PD_SCRIPTS[job['script']] if op[0] == 's')
            fixed = self.PD_FIXED[job['script']]
            vals = [float(fixed[i]) if i in fixed else float(inp['v%d' % i]) for i in range(nv)]

            def prove(k, cur):
                return all(cur[k] <= cur[o] for o in cur)
            prove.sym = False
            try:
                v = self._pdict(None, job, vals, prove)
            except Exception as e:
                v = 'priority_dict script raised %s: %s' % (type(e).__name__, e)
            return dict(violation=(v + ' [script %r, priorities %r]' % (self.PD_SCRIPTS[job['script']], vals)) if v else None, outputs={})
        topo = [tuple(e) for e in job['topo']]
        W = [float(inp['w%d' % i]) for i in range(len(topo))]
        ints = job.get('ids') == 'int'
        nodes = _nodes(topo, base=(0, 1, 2)) if ints else _nodes(topo)
        net = netlib.build(topo, W, nodes, int_edge_ids=ints)
        D = netlib.floyd(topo, W, nodes)
        # exact rational oracle next to the float one: a pair *exactly* at the cut-off must be present; a verdict is
        # only reported when the float and the exact oracle agree (so float rounding can never raise an alarm)
        from fractions import Fraction as FX
        DX = netlib.floyd(topo, [FX(w) for w in W], nodes)
        INF = float('inf')
        tol = 1e-9
        kind = job['kind']
        if kind == 'target':
            s, t = job['s'], job['t']
            try:
                d = net.shortest_distance(s, t)
            except Exception as e:
                return dict(violation='shortest_distance raised %s: %s' % (type(e).__name__, e))
            true = D[(s, t)]
            if not isinstance(d, (int, float)):
                return dict(violation='shortest_distance(%r, %r) returned %r instead of a number' % (s, t, d), outputs={})
            if true == INF:
                v = None if d < 0 else 'unreachable pair %s->%s reported distance %r' % (s, t, d)
            else:
                v = None if abs(d - true) <= tol * max(1, true) else 'shortest_distance(%s,%s) = %r, true minimum %r' % (s, t, d, true)
            return dict(violation=v, outputs=dict(d=d))
        if kind == 'cut':
            s = job['s']
            cut = float(inp['cut'])
            out = {}
            try:
                net.run_routing_forward(s, cut=cut, output_dict=out)
                lst = net.shortest_distance(s)
            except Exception as e:
                return dict(violation='routing raised %s: %s' % (type(e).__name__, e))
            v = None
            for i, t in enumerate(nodes):
                true = D[(s, t)]
                if (s, t) in out:
                    if true == INF or abs(out[(s, t)] - true) > tol * max(1, true) or true > cut + tol:
                        v = 'table[%s,%s] = %r but true distance %r, cut %r' % (s, t, out[(s, t)], true, cut)
                elif true <= cut and DX[(s, t)] <= FX(cut):
                    v = 'pair (%s,%s) with true distance %r <= cut %r missing from the table' % (s, t, true, cut)
                if true == INF:
                    if lst[i] < 1e299:
                        v = 'list form: unreachable %s reported %r' % (t, lst[i])
                elif abs(lst[i] - true) > tol * max(1, true):
                    v = 'list form: %s reported %r, true %r' % (t, lst[i], true)
            return dict(violation=v, outputs=dict(keys=[int((s, t) in out) for t in nodes], lst=list(lst)))
        if kind == 'all':
            cut = float(inp['cut'])
            try:
                first = net.all_shortest_distances()          # an earlier call with the default cut-off: its table must not leak into the next one
                out = net.all_shortest_distances(cut=cut)
                net.prepare(cut=cut, verbose=False)
            except Exception as e:
                return dict(violation='all_shortest_distances raised %s: %s' % (type(e).__name__, e))
            v = None
            for s in nodes:
                for t in nodes:
                    true = D[(s, t)]
                    if (s, t) in out:
                        if true == INF or abs(out[(s, t)] - true) > tol * max(1, true) or true > cut + tol:
                            v = 'all-pairs[%s,%s] = %r but true %r, cut %r' % (s, t, out[(s, t)], true, cut)
                        if net.prepared_shortest_distance(s, t) != out[(s, t)]:
                            v = 'prepare() differs at (%s,%s)' % (s, t)
                    elif true <= cut and DX[(s, t)] <= FX(cut):
                        v = 'all-pairs misses (%s,%s): true %r <= cut %r' % (s, t, true, cut)
            return dict(violation=v, outputs=dict(keys=[int((s, t) in out) for s in nodes for t in nodes]))


CHECK = C06()
