"""C20 — projecting a point on a polyline returns its nearest point."""
import sys
import math
import z3
from symx.runner import Check
from symx import core
from symx.core import zreal
from symx.lifts import std_patches

GEO = 'tracklib.util.geometry'
MAP = 'tracklib.algo.mapping'
COORDS = 'tracklib.core.obs_coords'

DIRS = [(5, 0), (0, 5), (3, 4), (-4, 3), (1, 1), (-2, -7), (0, -3), (0.001, 2), (-6, 0), (7, -1)]
POLYS = [[(5, 0), (3, 4)], [(3, 4), (-4, 3)], [(5, 0), (0, 0), (3, 4)], [(1, 1), (5, 0), (-2, -7)], [(3, 4), (3, 4)], [(-6, 0), (3, 4), (6, 0)],
         [(5, 0), (0, 5)], [(3, 4), (0, -3), (5, 0)],
         [(5, 0), (2, -2), (3, 4)], [(-3, 3), (5, 0)], [(1, -1)],
         [(12, 0), (1, 1), (-12, 0)]]     # a hairpin: two long legs 1 apart (a later leg spans the query point while both its ends are far)      # legs with dx + dy == 0 (south-east / north-west), alone and inside a polyline
TOL = 1e-9


def qtol(scale):
    return z3.Q(1, 10 ** 9) * scale


def nearest_concrete(X, Y, x, y):
    """independent reference: (min distance, list of legs attaining it) by clamped projection"""
    best = None
    for i in range(len(X) - 1):
        dx, dy = X[i + 1] - X[i], Y[i + 1] - Y[i]
        L2 = dx * dx + dy * dy
        lam = 0.0 if L2 == 0 else min(1.0, max(0.0, ((x - X[i]) * dx + (y - Y[i]) * dy) / L2))
        d = math.hypot(x - (X[i] + lam * dx), y - (Y[i] + lam * dy))
        if best is None or d < best:
            best = d
    return best


class C20(Check):
    id = 'C20'
    title = 'Projecting a point on a polyline returns its nearest point'
    functions = ['geometry.cartesienne', 'geometry.projection_droite', 'geometry.proj_segment', 'geometry.proj_polyligne', 'mapping.mapOnTrack', 'mapping.__projOnTrack']
    stubs = ['geometry.math rebound: sqrt of a constant is the real math.sqrt double, sqrt of a symbolic term a fresh r >= 0 with r*r = x; fabs exact',
             'geometry.abs is the builtin (proxies implement __abs__)']
    assumptions = ['segment directions come from a catalogue (%s); the segment is translated by a symbolic vector and the query point is symbolic, all in [-100, 100]' % (DIRS,),
                   'tolerance 1e-9 (absolute on squared quantities scaled by 1 + magnitude) absorbs the rounding of the concrete irrational lengths',
                   '"no closer point exists" is decided with a free parameter mu in [0,1] in the negated query, per leg']
    outside = ['directions outside the catalogue (similarity invariance is an argument, not a proof)', '3-D', 'polylines whose legs all have zero length']
    classes = {'vertical_segment': 'the segment (or a leg of the polyline) is vertical: x1 == x2'}
    budget = {'quick': 200, 'thorough': 1800}
    engine_opts = {'sqrt_mono': True, 'verify_timeout_ms': 15000}     # implied monotonicity facts between the square roots of a path (decides nearest-end comparisons)

    def bounds(self, tier):
        return dict(segments='%d catalogue directions x {free query point, query point on the segment, query point at either end}' % len(DIRS),
                    polylines='%d catalogue polylines of 2-3 legs (quick: the 5 cheapest) (one with a zero-length leg, one with repeated direction, two with a vertical leg, three with a leg of direction (1,-1), one hairpin) through proj_polyligne and mapOnTrack' % len(POLYS))

    def jobs(self, tier, seed):
        js = []
        for d in DIRS:
            for where in ('free', 'on', 'end0', 'end1'):
                js.append(dict(kind='seg', d=list(d), where=where))
        for k, p in enumerate(POLYS):
            if tier == 'quick' and k in (3, 5, 7, 8):      # three legs with irrational lengths: ~10 s per 'no closer point' query, thorough tier
                continue
            js.append(dict(kind='poly', poly=k, api='proj_polyligne'))
            js.append(dict(kind='poly', poly=k, api='mapOnTrack'))
        return js

    def patches(self, job):
        return std_patches([GEO, COORDS], math=True, ints=False)

    def _inputs(self, eng, inp, job):
        sym = inp is None
        g = (lambda nm: eng.real(nm, -100, 100)) if sym else (lambda nm: float(inp[nm]))
        tx, ty = g('tx'), g('ty')
        if job['kind'] == 'seg':
            dx, dy = job['d']
            X, Y = [tx, tx + dx], [ty, ty + dy]
            w = job['where']
            if w == 'free':
                px, py = g('px'), g('py')
            else:
                lam = 0.0 if w == 'end0' else (1.0 if w == 'end1' else ((eng.real('lam', 0, 1)) if sym else float(inp['lam'])))
                px, py = tx + lam * dx, ty + lam * dy
            return X, Y, px, py
        X, Y = [tx], [ty]
        for dx, dy in POLYS[job['poly']]:
            X.append(X[-1] + dx)
            Y.append(Y[-1] + dy)
        return X, Y, g('px'), g('py')

    def _call(self, job, X, Y, px, py):
        geo = sys.modules[GEO]
        if job['kind'] == 'seg':
            d, xp, yp = geo.proj_segment([X[0], Y[0], X[1], Y[1]], px, py)
            return d, xp, yp, 0
        if job['api'] == 'proj_polyligne':
            return geo.proj_polyligne(list(X), list(Y), px, py)
        from tracklib.core import Track, Obs, ENUCoords, ObsTime
        mp = sys.modules[MAP]
        tr = Track([Obs(ENUCoords(X[i], Y[i], 0.0), ObsTime.readUnixTime(float(i))) for i in range(len(X))])
        p, d, i = mp.mapOnTrack(ENUCoords(px, py, 0.0), tr)
        return d, p.getX(), p.getY(), i

    def _vertical(self, job):
        legs = [job['d']] if job['kind'] == 'seg' else POLYS[job['poly']]
        return any(dx == 0 and dy != 0 for dx, dy in legs)

    def path(self, ctx, job):
        eng = ctx.eng
        X, Y, px, py = self._inputs(eng, None, job)
        cls = {'vertical_segment': z3.BoolVal(self._vertical(job))}
        try:
            d, xp, yp, ip = self._call(job, X, Y, px, py)
        except (core._Abort, core._Stop, core.Unsupported):
            raise
        except Exception as e:
            if isinstance(e, TypeError) and ('SReal' in str(e) or 'SInt' in str(e)):
                raise
            ctx.fail('projection raised %s' % type(e).__name__, classes=cls)
            return
        ctx.reach()
        ctx.observe(d=d, xp=xp, yp=yp, ip=ip)
        n = len(X) - 1
        if not isinstance(ip, int) or not (0 <= ip < n):
            ctx.fail('returned segment index is not a segment of the polyline', classes=cls)
            return
        Xz, Yz = [zreal(v) for v in X], [zreal(v) for v in Y]
        P = (zreal(px), zreal(py))
        dz, xz, yz = zreal(d), zreal(xp), zreal(yp)
        x1, y1, x2, y2 = Xz[ip], Yz[ip], Xz[ip + 1], Yz[ip + 1]
        ddx, ddy = x2 - x1, y2 - y1
        legs = [job['d']] if job['kind'] == 'seg' else POLYS[job['poly']]
        L2c = float(legs[ip][0]) ** 2 + float(legs[ip][1]) ** 2
        cross = (xz - x1) * ddy - (yz - y1) * ddx
        dot = (xz - x1) * ddx + (yz - y1) * ddy
        t = qtol(1 + L2c)
        # a zero-length leg carries only its vertex: cross and dot vanish identically there, so the point is also pinned to the disc of the leg
        disc = (xz - x1) * (xz - x1) + (yz - y1) * (yz - y1) <= L2c + t
        if not ctx.prove(z3.And(cross <= t, cross >= -t, dot >= -t, dot <= ddx * ddx + ddy * ddy + t, disc),
                         'the returned point lies on the segment whose index is returned', classes=cls):
            return
        dist2 = (P[0] - xz) * (P[0] - xz) + (P[1] - yz) * (P[1] - yz)
        t2 = qtol(1) * (1 + dist2)
        if not ctx.prove(z3.And(dz >= 0, dz * dz - dist2 <= t2, dist2 - dz * dz <= t2),
                         'the returned distance is the distance from the query point to the returned point', classes=cls):
            return
        for j in range(n):
            mu = z3.Real('mu')
            sx, sy = Xz[j] + mu * (Xz[j + 1] - Xz[j]), Yz[j] + mu * (Yz[j + 1] - Yz[j])
            other = (P[0] - sx) * (P[0] - sx) + (P[1] - sy) * (P[1] - sy)
            if not ctx.prove(z3.Implies(z3.And(mu >= 0, mu <= 1), dz * dz <= other + qtol(1) * (1 + other)),
                             'no point of the polyline is closer than the returned distance', classes=cls, chain=False):
                return

    def concrete(self, job, inp):
        X, Y, px, py = self._inputs(None, inp, job)
        try:
            d, xp, yp, ip = self._call(job, X, Y, px, py)
        except Exception as e:
            return dict(violation='projection of (%r, %r) on %r raised %s: %s' % (px, py, list(zip(X, Y)), type(e).__name__, e))
        out = dict(d=float(d), xp=float(xp), yp=float(yp), ip=ip)
        best = nearest_concrete(X, Y, px, py)
        scale = 1.0 + abs(best)
        desc = 'query (%r, %r), polyline %r: returned d=%r point=(%r, %r) segment=%r' % (px, py, list(zip(X, Y)), float(d), float(xp), float(yp), ip)
        if not (0 <= ip < len(X) - 1):
            return dict(violation=desc + ': index is not a segment', outputs=out)
        on = nearest_concrete(X[ip:ip + 2], Y[ip:ip + 2], xp, yp)
        if on > 1e-6 * scale:
            return dict(violation=desc + ': the point is %.3g away from that segment' % on, outputs=out)
        if abs(d - math.hypot(px - xp, py - yp)) > 1e-6 * scale:
            return dict(violation=desc + ': d differs from the distance to the returned point %r' % math.hypot(px - xp, py - yp), outputs=out)
        if d > best + 1e-6 * scale:
            return dict(violation=desc + ': the true minimum distance is %r' % best, outputs=out)
        return dict(violation=None, outputs=out)


CHECK = C20()
