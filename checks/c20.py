"""C20 — projecting a point on a polyline returns its nearest point."""
import sys
import math
import z3
from symx.runner import Check
from symx import core
from symx.core import zreal
from symx.lifts import std_patches

GEO = 'tracklib.util.geometry'
MAP = 'tracklib.algo.mapping'
COORDS = 'tracklib.core.obs_coords'

DIRS = [(5, 0), (0, 5), (3, 4), (-4, 3), (1, 1), (-2, -7), (0, -3), (0.001, 2), (-6, 0), (7, -1)]
POLYS = [[(5, 0), (3, 4)], [(3, 4), (-4, 3)], [(5, 0), (0, 0), (3, 4)], [(1, 1), (5, 0), (-2, -7)], [(3, 4), (3, 4)], [(-6, 0), (3, 4), (6, 0)],
         [(5, 0), (0, 5)], [(3, 4), (0, -3), (5, 0)],
         [(5, 0), (2, -2), (3, 4)], [(-3, 3), (5, 0)], [(1, -1)],
         [(12, 0), (1, 1), (-12, 0)]]     # a hairpin: two long legs 1 apart (a later leg spans the query point while both its ends are far)      # legs with dx + dy == 0 (south-east / north-west), alone and inside a polyline
TOL = 1e-9


def _zig(n):
    return [(4, 2) if i % 2 == 0 else (4, -2) for i in range(n)]


# scale probes: long fixed polylines (anchored at the origin); the query point is symbolic inside a box (x0, x1, y0, y1) beside a chosen leg
LONGPOLYS = {'zig40': _zig(39), 'zig70': _zig(69), 'outback': [(3, 0)] * 10 + [(2, 4)] + [(-3, 0)] * 10, 'spiral': [(8, 1), (1, 8), (-7, 1), (1, -6), (5, 1), (1, 4), (-3, 1), (1, -2)]}
LONGBOXES = {'zig40': {31: (124.5, 127.5, -3, 5), 32: (128.5, 131.5, -3, 5), 0: (-2, 3.5, -3, 4), 38: (152.5, 158, -3, 5), 15: (60.5, 63.5, -2, 4)},
             'zig70': {31: (124.5, 127.5, -3, 5), 63: (252.5, 255.5, -3, 5), 64: (256.5, 259.5, -3, 5), 68: (272.5, 278, -3, 5)},
             'outback': {14: (17.5, 20.5, 2.25, 6), 3: (9.5, 11.5, -2, 1.75), 10: (29, 34, -1, 5)},
             'spiral': {7: (2, 6, 1, 5), 0: (-1, 9, -2, 3)}}


def qtol(scale):
    return z3.Q(1, 10 ** 9) * scale


def nearest_concrete(X, Y, x, y):
    """independent reference: (min distance, list of legs attaining it) by clamped projection"""
    best = None
    for i in range(len(X) - 1):
        dx, dy = X[i + 1] - X[i], Y[i + 1] - Y[i]
        L2 = dx * dx + dy * dy
        lam = 0.0 if L2 == 0 else min(1.0, max(0.0, ((x - X[i]) * dx + (y - Y[i]) * dy) / L2))
        d = math.hypot(x - (X[i] + lam * dx), y - (Y[i] + lam * dy))
        if best is None or d < best:
            best = d
    return best


# track mode: position of the observation that precedes the query point (on the other lane of the out-and-back reference: far in edge index, near in space)
LONGFIRST = {'outback': {14: (19.0, 0.25), 3: (10.0, 3.75), 10: (0.25, 0.25)}, 'spiral': {7: (0.5, 0.25)}}


class C20(Check):
    id = 'C20'
    title = 'Projecting a point on a polyline returns its nearest point'
    functions = ['geometry.cartesienne', 'geometry.projection_droite', 'geometry.proj_segment', 'geometry.proj_polyligne', 'mapping.mapOnTrack', 'mapping.__projOnTrack']
    stubs = ['geometry.math rebound: sqrt of a constant is the real math.sqrt double, sqrt of a symbolic term a fresh r >= 0 with r*r = x; fabs exact',
             'geometry.abs is the builtin (proxies implement __abs__)']
    assumptions = ['segment directions come from a catalogue (%s); the segment is translated by a symbolic vector and the query point is symbolic, all in [-100, 100]' % (DIRS,),
                   'tolerance 1e-9 (absolute on squared quantities scaled by 1 + magnitude) absorbs the rounding of the concrete irrational lengths',
                   '"no closer point exists" is decided with a free parameter mu in [0,1] in the negated query, per leg',
                   'long fixed polylines (scale probes): anchored at the origin, query point symbolic in a box beside a chosen leg; legs whose bounding box is farther from the box than the '
                   'farthest box corner is from a vertex of that leg are skipped in the "no closer point" query (they cannot carry a closer point)']
    extra_evidence = None
    outside = ['IEEE rounding, except for the bit-precise probe of the inclusion test on horizontal segments (thorough tier, job fp_axis)', 'directions outside the catalogue (similarity invariance is an argument, not a proof)', '3-D', 'polylines whose legs all have zero length']
    classes = {'vertical_segment': 'the segment (or a leg of the polyline) is vertical: x1 == x2'}
    budget = {'quick': 200, 'thorough': 1800}
    engine_opts = {'sqrt_mono': True, 'verify_timeout_ms': 15000}     # implied monotonicity facts between the square roots of a path (decides nearest-end comparisons)

    def bounds(self, tier):
        return dict(segments='%d catalogue directions x {free query point, query point on the segment, query point at either end}' % len(DIRS),
                    polylines='%d catalogue polylines of 2-3 legs (quick: the 5 cheapest) (one with a zero-length leg, one with repeated direction, two with a vertical leg, three with a leg of direction (1,-1), one hairpin) through proj_polyligne and mapOnTrack' % len(POLYS))

    def jobs(self, tier, seed):
        js = []
        for d in DIRS:
            for where in ('free', 'on', 'end0', 'end1'):
                js.append(dict(kind='seg', d=list(d), where=where))
        for k, p in enumerate(POLYS):
            if tier == 'quick' and k in (3, 5, 7, 8):      # three legs with irrational lengths: ~10 s per 'no closer point' query, thorough tier
                continue
            js.append(dict(kind='poly', poly=k, api='proj_polyligne'))
            js.append(dict(kind='poly', poly=k, api='mapOnTrack'))
        q = tier == 'quick'
        for name, legs in ((('zig40', [31]), ('outback', [14])) if q else [(k, sorted(v)) for k, v in LONGBOXES.items()]):
            for leg in legs:
                js.append(dict(kind='long', poly=name, leg=leg, api='proj_polyligne'))
                if name in ('outback', 'spiral') or leg == 31:
                    if not q:
                        js.append(dict(kind='long', poly=name, leg=leg, api='mapOnTrack'))
                    js.append(dict(kind='long', poly=name, leg=leg, api='mapOnTrack(track)'))
        # value-kind probes (polyline given as numpy arrays, query point as numpy scalars) and leftover-state probe (the reference track moved in place between two projections)
        for name, leg in (('spiral', 0), ('spiral', 7), ('outback', 10)):
            js.append(dict(kind='long', poly=name, leg=leg, api='proj_polyligne', vk='np'))
            js.append(dict(kind='long', poly=name, leg=leg, api='proj_polyligne', vk='npq'))
        for name, leg in (('spiral', 7), ('outback', 3)):
            js.append(dict(kind='long', poly=name, leg=leg, api='mapOnTrack', moved=[1.5, 3.0]))
        if tier != 'quick':
            js.insert(0, dict(kind='fp_axis'))      # bit-precise (IEEE binary64) probe of the inclusion test on horizontal segments, decided by cvc5
        return js

    def patches(self, job):
        # min / max / abs of the geometry module as fork-free If-terms (same values; merges paths that differ only in which operand won)
        return std_patches([GEO, COORDS], math=True, ints=False) + [(GEO, 'max', core.sym_max), (GEO, 'min', core.sym_min), (GEO, 'abs', core.sym_abs_term)]

    def _inputs(self, eng, inp, job):
        sym = inp is None
        g = (lambda nm: eng.real(nm, -100, 100)) if sym else (lambda nm: float(inp[nm]))
        tx, ty = (g('tx'), g('ty')) if job['kind'] != 'long' else (0.0, 0.0)
        if job['kind'] == 'seg':
            dx, dy = job['d']
            X, Y = [tx, tx + dx], [ty, ty + dy]
            w = job['where']
            if w == 'free':
                px, py = g('px'), g('py')
            else:
                lam = 0.0 if w == 'end0' else (1.0 if w == 'end1' else ((eng.real('lam', 0, 1)) if sym else float(inp['lam'])))
                px, py = tx + lam * dx, ty + lam * dy
            return X, Y, px, py
        if job['kind'] == 'long':
            X, Y = [0.0], [0.0]
            for dx, dy in LONGPOLYS[job['poly']]:
                X.append(X[-1] + dx)
                Y.append(Y[-1] + dy)
            x0, x1, y0, y1 = LONGBOXES[job['poly']][job['leg']]
            if job.get('moved'):
                X, Y = [v + job['moved'][0] for v in X], [v + job['moved'][1] for v in Y]
                x0, x1, y0, y1 = x0 + job['moved'][0], x1 + job['moved'][0], y0 + job['moved'][1], y1 + job['moved'][1]
            if job.get('vk'):       # numpy values cannot be symbolic: the query point is one of 5 x 5 grid points of the box (a path each)
                import numpy as np
                ix = eng.choice('ix', 5) if sym else int(inp['ix'])
                iy = eng.choice('iy', 5) if sym else int(inp['iy'])
                qx, qy = x0 + (x1 - x0) * (ix + 0.5) / 5.0, y0 + (y1 - y0) * (iy + 0.5) / 5.0
                if job['vk'] == 'np':
                    return np.array(X), np.array(Y), np.float64(qx), np.float64(qy)
                return X, Y, np.float64(qx), np.float64(qy)
            if sym:
                return X, Y, eng.real('px', x0, x1), eng.real('py', y0, y1)
            return X, Y, float(inp['px']), float(inp['py'])
        X, Y = [tx], [ty]
        for dx, dy in POLYS[job['poly']]:
            X.append(X[-1] + dx)
            Y.append(Y[-1] + dy)
        return X, Y, g('px'), g('py')

    def _call(self, job, X, Y, px, py):
        geo = sys.modules[GEO]
        if job['kind'] == 'seg':
            d, xp, yp = geo.proj_segment([X[0], Y[0], X[1], Y[1]], px, py)
            return d, xp, yp, 0
        if job['api'] == 'proj_polyligne':
            return geo.proj_polyligne(X if job.get('vk') == 'np' else list(X), Y if job.get('vk') == 'np' else list(Y), px, py)
        from tracklib.core import Track, Obs, ENUCoords, ObsTime
        mp = sys.modules[MAP]
        if job.get('moved'):
            dx, dy = job['moved']
            tr = Track([Obs(ENUCoords(X[i] - dx, Y[i] - dy, 0.0), ObsTime.readUnixTime(float(i))) for i in range(len(X))])
            mp.mapOnTrack(ENUCoords(X[0] - dx + 0.5, Y[0] - dy + 0.5, 0.0), tr)       # first projection on the reference where it was ...
            for i in range(len(X)):                                                   # ... then the caller moves the same Track object in place
                tr.getObs(i).position.setX(X[i])
                tr.getObs(i).position.setY(Y[i])
        else:
            tr = Track([Obs(ENUCoords(X[i], Y[i], 0.0), ObsTime.readUnixTime(float(i))) for i in range(len(X))])
        if job['api'] == 'mapOnTrack(track)':
            # track mode: a first observation at the start of the reference, then the query point; the second result is judged
            fx, fy = LONGFIRST.get(job['poly'], {}).get(job['leg'], (X[0] + 0.25, Y[0] + 0.25))
            qt = Track([Obs(ENUCoords(fx, fy, 0.0), ObsTime.readUnixTime(0.0)), Obs(ENUCoords(px, py, 0.0), ObsTime.readUnixTime(1.0))])
            out = mp.mapOnTrack(qt, tr)
            if out.size() != 2:
                raise ValueError('mapOnTrack(track) did not return one observation per input observation')
            return out.getObsAnalyticalFeature('dist', 1), out.getObs(1).position.getX(), out.getObs(1).position.getY(), out.getObsAnalyticalFeature('edge', 1)
        p, d, i = mp.mapOnTrack(ENUCoords(px, py, 0.0), tr)
        return d, p.getX(), p.getY(), i

    def _vertical(self, job):
        legs = [job['d']] if job['kind'] == 'seg' else (LONGPOLYS if job['kind'] == 'long' else POLYS)[job['poly']]
        return any(dx == 0 and dy != 0 for dx, dy in legs)

    def _fp_axis(self, ctx, job):
        """Floats are reals everywhere else in this check.  Here the two leaf kernels `cartesienne` and `projection_droite` are executed on
        binary64 proxies (symx/fp.py) for a horizontal segment [x1, y, x2, y] and a query point whose foot lies well inside it; the lemma
        the inclusion test of proj_segment needs there is 'the foot has the ordinate y bit-exactly'.  cvc5 searches for inputs that break
        the lemma (a rounding hazard); each hazard input is then run through the REAL proj_segment with real floats and judged against the
        true distance |py - y|.  A hazard on which the real function is right is not a finding (the function may not rely on the lemma)."""
        from symx import fp
        from symx.lifts import Patches
        geo = sys.modules[GEO]
        c = fp.Ctx()
        fp.Ctx.cur = c
        x1, y1, px, py = fp.var('x1', -100, 100, c), fp.var('y1', -100, 100, c), fp.var('px', -100, 100, c), fp.var('py', -100, 100, c)
        w = fp.var('w', 2, 50, c)
        x2 = x1 + w
        c.assume(z3.And(z3.fpGEQ(px.t, (x1 + 0.5).t), z3.fpLEQ(px.t, (x2 - 0.5).t)))          # the foot is well inside the segment
        c.assume(z3.fpGEQ(abs(y1).t, fp.fval(0.001)))
        with Patches([(GEO, 'math', fp.FPMath())]):
            param = geo.cartesienne([x1, y1, x2, y1])
            xp, yp = geo.projection_droite(param, px, py)
        ctx.reached += 1
        found, tried, secs = [], 0, 0.0
        block = []
        for k in range(2):
            ans, vals, dt = fp.solve_cvc5(c.pre + block + [z3.Not(z3.fpEQ(yp.t, y1.t))], ['x1', 'y1', 'w', 'px', 'py'], timeout_s=400)
            secs += dt
            if ans != 'sat' or not vals:
                break
            tried += 1
            X1, Y1, X2, PX, PY = vals['x1'], vals['y1'], vals['x1'] + vals['w'], vals['px'], vals['py']
            d, xq, yq = geo.proj_segment([X1, Y1, X2, Y1], PX, PY)
            true = abs(PY - Y1)
            if abs(d - true) > 1e-6 * (1 + true):
                found.append(dict(segment=[X1, Y1, X2, Y1], query=[PX, PY], returned=[d, xq, yq], true_distance=true))
                ctx.findings.append(dict(kind='violation', what='bit-precise probe: a horizontal segment whose foot ordinate is rounded one ulp off is answered with an end point instead of the foot',
                                         inputs=dict(x1=X1, y1=Y1, x2=X2, px=PX, py=PY),
                                         observed='proj_segment(%r, %r, %r) returned distance %r at (%r, %r); the foot is (%r, %r) at distance %r' % ([X1, Y1, X2, Y1], PX, PY, d, xq, yq, PX, Y1, true)))
                break
            block.append(z3.Not(z3.fpEQ(y1.t, fp.fval(Y1))))
        self.extra_evidence = dict(fp_probe=dict(kernel='cartesienne + projection_droite on binary64 proxies, horizontal segment, foot inside', solver='cvc5 (SMT-LIB exported by z3, QF_FP)',
                                                 hazard_inputs_found=tried, violations_replayed=len(found), solver_s=round(secs, 1), branch_conditions_decided=c.decided,
                                                 note='a hazard input breaks the kernel lemma "foot ordinate == segment ordinate"; it is a finding only if the real proj_segment answers it wrongly'))
        ctx.note = 'fp probe: %d hazard inputs, %d violations' % (tried, len(found))

    def path(self, ctx, job):
        eng = ctx.eng
        if job['kind'] == 'fp_axis':
            self._fp_axis(ctx, job)
            return
        X, Y, px, py = self._inputs(eng, None, job)
        cls = {'vertical_segment': z3.BoolVal(self._vertical(job))}
        try:
            d, xp, yp, ip = self._call(job, X, Y, px, py)
        except (core._Abort, core._Stop, core.Unsupported):
            raise
        except Exception as e:
            if isinstance(e, TypeError) and ('SReal' in str(e) or 'SInt' in str(e)):
                raise
            ctx.fail('projection raised %s' % type(e).__name__, classes=cls)
            return
        ctx.reach()
        ctx.observe(d=d)      # the point and the index are judged by the oracle; at an exact tie between two legs rounding may pick either
        n = len(X) - 1
        if not isinstance(ip, int) or not (0 <= ip < n):
            ctx.fail('returned segment index is not a segment of the polyline', classes=cls)
            return
        Xz, Yz = [zreal(v) for v in X], [zreal(v) for v in Y]
        P = (zreal(px), zreal(py))
        dz, xz, yz = zreal(d), zreal(xp), zreal(yp)
        x1, y1, x2, y2 = Xz[ip], Yz[ip], Xz[ip + 1], Yz[ip + 1]
        ddx, ddy = x2 - x1, y2 - y1
        legs = [job['d']] if job['kind'] == 'seg' else (LONGPOLYS if job['kind'] == 'long' else POLYS)[job['poly']]
        L2c = float(legs[ip][0]) ** 2 + float(legs[ip][1]) ** 2
        cross = (xz - x1) * ddy - (yz - y1) * ddx
        dot = (xz - x1) * ddx + (yz - y1) * ddy
        t = qtol(1 + L2c)
        # a zero-length leg carries only its vertex: cross and dot vanish identically there, so the point is also pinned to the disc of the leg
        disc = (xz - x1) * (xz - x1) + (yz - y1) * (yz - y1) <= L2c + t
        if not ctx.prove(z3.And(cross <= t, cross >= -t, dot >= -t, dot <= ddx * ddx + ddy * ddy + t, disc),
                         'the returned point lies on the segment whose index is returned', classes=cls):
            return
        dist2 = (P[0] - xz) * (P[0] - xz) + (P[1] - yz) * (P[1] - yz)
        t2 = qtol(1) * (1 + dist2)
        if not ctx.prove(z3.And(dz >= 0, dz * dz - dist2 <= t2, dist2 - dz * dz <= t2),
                         'the returned distance is the distance from the query point to the returned point', classes=cls):
            return
        far = set()
        if job['kind'] == 'long':
            # sound concrete pruning: U bounds the distance from any admissible query point to a vertex of the polyline (so, once 'no closer point'
            # is proved for the legs kept, d <= U); a leg whose bounding box is farther than U from the query box cannot carry a closer point
            x0, x1, y0, y1 = LONGBOXES[job['poly']][job['leg']]
            if job.get('moved'):
                x0, x1, y0, y1 = x0 + job['moved'][0], x1 + job['moved'][0], y0 + job['moved'][1], y1 + job['moved'][1]
            vx, vy = float(X[job['leg']]), float(Y[job['leg']])
            U = max(math.hypot(cx - vx, cy - vy) for cx in (x0, x1) for cy in (y0, y1))
            for j in range(n):
                gapx = max(0.0, min(X[j], X[j + 1]) - x1, x0 - max(X[j], X[j + 1]))
                gapy = max(0.0, min(Y[j], Y[j + 1]) - y1, y0 - max(Y[j], Y[j + 1]))
                if math.hypot(gapx, gapy) > U + 1e-6 and j != job['leg']:
                    far.add(j)
        for j in range(n):
            if j in far:
                continue
            mu = z3.Real('mu')
            sx, sy = Xz[j] + mu * (Xz[j + 1] - Xz[j]), Yz[j] + mu * (Yz[j + 1] - Yz[j])
            other = (P[0] - sx) * (P[0] - sx) + (P[1] - sy) * (P[1] - sy)
            if not ctx.prove(z3.Implies(z3.And(mu >= 0, mu <= 1), dz * dz <= other + qtol(1) * (1 + other)),
                             'no point of the polyline is closer than the returned distance', classes=cls, chain=False):
                return

    def concrete(self, job, inp):
        if job['kind'] == 'fp_axis':
            geo = sys.modules[GEO]
            seg = [float(inp['x1']), float(inp['y1']), float(inp['x2']), float(inp['y1'])]
            d, xq, yq = geo.proj_segment(seg, float(inp['px']), float(inp['py']))
            true = abs(float(inp['py']) - float(inp['y1']))
            v = None if abs(d - true) <= 1e-6 * (1 + true) else 'proj_segment(%r, %r, %r) returned distance %r at (%r, %r); the foot is at distance %r' % (seg, inp['px'], inp['py'], d, xq, yq, true)
            return dict(violation=v, outputs={})
        X, Y, px, py = self._inputs(None, inp, job)
        try:
            d, xp, yp, ip = self._call(job, X, Y, px, py)
        except Exception as e:
            return dict(violation='projection of (%r, %r) on %r raised %s: %s' % (px, py, list(zip(X, Y)), type(e).__name__, e))
        out = dict(d=float(d))
        best = nearest_concrete(X, Y, px, py)
        scale = 1.0 + abs(best)
        desc = 'query (%r, %r), polyline %r: returned d=%r point=(%r, %r) segment=%r' % (px, py, list(zip(X, Y)), float(d), float(xp), float(yp), ip)
        if not (0 <= ip < len(X) - 1):
            return dict(violation=desc + ': index is not a segment', outputs=out)
        on = nearest_concrete(X[ip:ip + 2], Y[ip:ip + 2], xp, yp)
        if on > 1e-6 * scale:
            return dict(violation=desc + ': the point is %.3g away from that segment' % on, outputs=out)
        if abs(d - math.hypot(px - xp, py - yp)) > 1e-6 * scale:
            return dict(violation=desc + ': d differs from the distance to the returned point %r' % math.hypot(px - xp, py - yp), outputs=out)
        if d > best + 1e-6 * scale:
            return dict(violation=desc + ': the true minimum distance is %r' % best, outputs=out)
        return dict(violation=None, outputs=out)


CHECK = C20()
