"""C19 — grid summarising conserves observations and aggregates per cell."""
import sys
import math
import z3
from symx.runner import Check
from symx import core
from symx.core import zreal
from symx.lifts import std_patches

RAS = 'tracklib.core.raster'
UTL = 'tracklib.core.utils'
SUM = 'tracklib.algo.summarising'
BBX = 'tracklib.core.bbox'
NO_DATA = -99999.0
AGGS = ['co_count', 'co_sum', 'co_min', 'co_max', 'co_avg', 'co_median']

# frame (two concrete observations that fix the bounding box), resolution, margin -- all cell borders are dyadic
CONFIGS = {
    'unit':   ((0.0, 0.0, 3.0, 2.0), (1.0, 1.0), 0.0),      # 3 x 2 cells, data on the outer border
    'partial': ((0.0, 0.0, 3.0, 2.0), (2.0, 1.5), 0.0),     # resolution does not divide the extent: 2 x 2 cells, last ones partial
    'margin': ((0.0, 0.0, 4.0, 2.0), (1.5, 1.0), 0.25),     # extent (-1..5, -0.5..2.5): 4 x 3 cells
    'fine':   ((0.0, 0.0, 2.0, 1.0), (0.5, 0.5), 0.0),      # 4 x 2 cells
}
FRAME_VALUES = [2.0, float('nan')]


def isnan(v):
    return isinstance(v, float) and v != v


def build(cfg, pts, vals):
    """collection: the frame track (2 fixes) then one track with the k other observations"""
    from tracklib.core import Track, Obs, ENUCoords, ObsTime, TrackCollection
    (x0, y0, x1, y1), res, margin = CONFIGS[cfg]
    frame = Track([Obs(ENUCoords(x0, y0, 0), ObsTime()), Obs(ENUCoords(x1, y1, 0), ObsTime())], 1, 1)
    frame.createAnalyticalFeature('f', list(FRAME_VALUES))
    tracks = [frame]
    cut = len(pts) if len(pts) < 40 else len(pts) - 5      # long collections: a long track followed by a short one
    for tid, (a, b) in enumerate(((0, cut), (cut, len(pts)))):
        if b > a:
            tr = Track([Obs(ENUCoords(x, y, 0), ObsTime()) for x, y in pts[a:b]], 2 + tid, 2 + tid)
            tr.createAnalyticalFeature('f', list(vals[a:b]))
            tracks.append(tr)
    return TrackCollection(tracks), [(x0, y0), (x1, y1)] + list(pts), list(FRAME_VALUES) + list(vals)


def summarize(cfg, coll):
    sm = sys.modules[SUM]
    ut = sys.modules[UTL]
    (x0, y0, x1, y1), res, margin = CONFIGS[cfg]
    return sm.summarize(coll, ['f'] * len(AGGS), [getattr(ut, a) for a in AGGS], resolution=res, margin=margin, verbose=False)


def zmin(ts):
    r = ts[0]
    for t in ts[1:]:
        r = z3.If(t < r, t, r)
    return r


def zmax(ts):
    r = ts[0]
    for t in ts[1:]:
        r = z3.If(t > r, t, r)
    return r


def median_holds(m, ts):
    """m is the median of the real terms ts (mean of the two middle values for an even count)"""
    n = len(ts)
    cnt_le = lambda a: z3.Sum([z3.If(t <= a, 1, 0) for t in ts])
    cnt_ge = lambda a: z3.Sum([z3.If(t >= a, 1, 0) for t in ts])
    if n % 2 == 1:
        h = (n + 1) // 2
        return z3.Or([z3.And(m == a, cnt_le(a) >= h, cnt_ge(a) >= h) for a in ts])
    h = n // 2
    opts = []
    for i, a in enumerate(ts):
        for j, b in enumerate(ts):
            if i != j:
                opts.append(z3.And(a <= b, cnt_le(a) >= h, cnt_ge(a) >= h + 1, cnt_le(b) >= h + 1, cnt_ge(b) >= h, 2 * m == a + b))
    return z3.Or(opts)


class C19(Check):
    id = 'C19'
    title = 'Grid summarising conserves observations and aggregates per cell'
    functions = ['summarising.summarize', 'Raster.__init__', 'Raster.getCell', 'Raster.addCollectionToRaster', 'Raster.computeAggregates', 'utils.co_count/co_sum/co_min/co_max/co_avg/co_median',
                 'TrackCollection.bbox', 'Bbox.addMargin']
    stubs = ['raster.math / raster.int / raster.float rebound (floor / ceil / int of symbolic values, is_integer() provided by the proxy)', 'utils.int/float rebound',
             'proxy __format__ returns a placeholder (coordinates are formatted into warnings)']
    assumptions = ['the bounding box is fixed by a concrete 2-fix frame track (values 2.0 and NaN) that is part of the collection; k further observations have symbolic positions anywhere in the closed '
                   'bounding box (borders, outer border, corners) and symbolic real-or-NaN feature values',
                   'footprint of cell (column c, row r counted from the top): [xmin + c*rx, xmin + (c+1)*rx] x [ymin + (nrow-1-r)*ry, ymin + (nrow-r)*ry], closed',
                   'a cell whose observations all carry NaN holds the empty aggregate (0 for count and sum, the no-data value otherwise)',
                   'grids: %s' % CONFIGS]
    outside = ['co_dominant, co_count_distinct', 'geographic coordinates', 'k beyond the bound', 'several feature names at once']
    budget = {'quick': 240, 'thorough': 2400}

    def bounds(self, tier):
        return dict(grids=self._cfgs(tier), k='%d symbolic observations + the 2 frame observations' % (2 if tier == 'quick' else 3), aggregates=AGGS)

    def _cfgs(self, tier):
        return ['unit', 'partial'] if tier == 'quick' else ['unit', 'partial', 'margin', 'fine']

    def jobs(self, tier, seed):
        js = []
        k = 2 if tier == 'quick' else 3
        for c in self._cfgs(tier):
            for kk in range(1, k + 1):
                # the NaN pattern of the values is a job parameter (parallelism); positions are fully symbolic
                for pat in range(2 ** kk):
                    if kk >= 2:      # partition further by the column of the first symbolic observation (closed last column)
                        for col in range(self._ncol(c)):
                            js.append(dict(kind='sum', cfg=c, k=kk, nan=[(pat >> b) & 1 for b in range(kk)], col0=col))
                    else:
                        js.append(dict(kind='sum', cfg=c, k=kk, nan=[(pat >> b) & 1 for b in range(kk)]))
        # scale probes: long tracks (fixed observations except one symbolic observation late in the track)
        for c in (['unit', 'fine'] if tier == 'quick' else ['unit', 'partial', 'margin', 'fine']):
            for n in ([45] if tier == 'quick' else [31, 32, 33, 45, 80, 200]):
                for nanv in (0, 1):
                    js.append(dict(kind='sum', cfg=c, k=n, long=True, nan=[nanv if i == n - 8 else (1 if i % 9 == 4 else 0) for i in range(n)]))
        # leftover-state probe: the same collection summarised first on another grid in the same process
        for c, first in (('unit', 'partial'), ('partial', 'unit')):
            for pat in range(2):
                js.append(dict(kind='sum', cfg=c, k=1, nan=[pat], first=first))
            js.append(dict(kind='sum', cfg=c, k=45, long=True, nan=[1 if i % 9 == 4 else 0 for i in range(45)], first=first))
        js.sort(key=lambda j: -j['k'] if not j.get('long') else -10 ** 6 + j['k'])      # scale probes first (smallest first), then the small-bound jobs, largest first
        return js

    def _ncol(self, cfg):
        (x0, y0, x1, y1), (rx, ry), margin = CONFIGS[cfg]
        return math.ceil((x1 - x0) * (1 + 2 * margin) / rx)

    def patches(self, job):
        return std_patches([RAS, UTL, BBX], math=True, ints=True)

    def _inputs(self, eng, inp, job):
        (x0, y0, x1, y1), res, margin = CONFIGS[job['cfg']]
        k = job['k']
        if job.get('long'):
            j = k - 8      # the symbolic observation
            pts = [(x0 + ((i * 5) % 16) * (x1 - x0) / 16.0, y0 + ((i * 3 + i // 16) % 8) * (y1 - y0) / 8.0) for i in range(k)]
            vals = [float('nan') if job['nan'][i] else float((i * 7) % 23) - 5.5 for i in range(k)]
            if inp is None:
                pts[j] = (eng.real('x%d' % j, x0, x1), eng.real('y%d' % j, y0, y1))
                if not job['nan'][j]:
                    vals[j] = eng.real('v%d' % j, 3.625, 4.375)      # strictly between two of the fixed values (these are all k + 0.5)
            else:
                pts[j] = (float(inp['x%d' % j]), float(inp['y%d' % j]))
                if not job['nan'][j]:
                    vals[j] = float(inp['v%d' % j])
            return pts, vals
        if inp is None:
            pts = [(eng.real('x%d' % i, x0, x1), eng.real('y%d' % i, y0, y1)) for i in range(k)]
            vals = [float('nan') if job['nan'][i] else eng.real('v%d' % i, -50, 50) for i in range(k)]
            if 'col0' in job:
                (rx, ry) = res
                xmin = x0 - margin * (x1 - x0)
                c0, nc = job['col0'], self._ncol(job['cfg'])
                lo, hi = xmin + c0 * rx, xmin + (c0 + 1) * rx
                eng.assume(z3.And(pts[0][0].z >= lo, pts[0][0].z <= hi) if c0 == nc - 1 else z3.And(pts[0][0].z >= lo, pts[0][0].z < hi))
        else:
            pts = [(float(inp['x%d' % i]), float(inp['y%d' % i])) for i in range(k)]
            vals = [float('nan') if job['nan'][i] else float(inp['v%d' % i]) for i in range(k)]
        return pts, vals

    def path(self, ctx, job):
        eng = ctx.eng
        from tracklib.core import ENUCoords
        pts, vals = self._inputs(eng, None, job)
        coll, allpts, allvals = build(job['cfg'], pts, vals)
        try:
            if job.get('first'):
                r0 = summarize(job['first'], coll)
                [r0.getCell(ENUCoords(x, y, 0)) for x, y in allpts]
            ras = summarize(job['cfg'], coll)
            cells = [ras.getCell(ENUCoords(x, y, 0)) for x, y in allpts]
        except (core._Abort, core._Stop, core.Unsupported):
            raise
        except (Exception, SystemExit) as e:
            if isinstance(e, TypeError) and ('SReal' in str(e) or 'SInt' in str(e)):
                raise
            ctx.fail('summarize raised %s' % type(e).__name__)
            return
        ctx.reach()
        (x0, y0, x1, y1), (rx, ry), margin = CONFIGS[job['cfg']]
        ncol, nrow = ras.ncol, ras.nrow
        if not isinstance(ncol, int) or not isinstance(nrow, int):
            ctx.fail('grid dimensions are not integers')
            return
        xmin, ymin = zreal(ras.xmin), zreal(ras.ymin)
        place = {}
        for i, ((x, y), cr) in enumerate(zip(allpts, cells)):
            if cr is None:
                ctx.fail('an observation of the collection is reported outside the grid')
                return
            c, r = int(cr[0]), int(cr[1])
            if not (0 <= c < ncol and 0 <= r < nrow):
                ctx.fail('an observation is assigned to a cell outside the grid')
                return
            xz, yz = zreal(x), zreal(y)
            foot = z3.And(xz >= xmin + c * rx, xz <= xmin + (c + 1) * rx, yz >= ymin + (nrow - 1 - r) * ry, yz <= ymin + (nrow - r) * ry)
            if not ctx.prove(foot, 'the footprint of the assigned cell contains the observation'):
                return
            place.setdefault((c, r), []).append(i)
        grids = {a: ras.getAFMap('f#' + a).grid for a in AGGS}
        ctx.observe(count=[grids['co_count'][r][c] for r in range(nrow) for c in range(ncol)])
        total = 0
        for r in range(nrow):
            for c in range(ncol):
                idx = place.get((c, r), [])
                vs = [allvals[i] for i in idx if not isnan(allvals[i])]
                ts = [zreal(v) for v in vs]
                g = {a: grids[a][r][c] for a in AGGS}
                if g['co_count'] != len(vs):
                    ctx.fail('co_count differs from the number of (non-NaN) values of the observations located in the cell')
                    return
                total += g['co_count']
                if not ts:
                    if g['co_sum'] != 0 or any(g[a] != NO_DATA for a in AGGS[2:]):
                        ctx.fail('a cell without (non-NaN) values does not hold the empty aggregate')
                        return
                    continue
                for a in AGGS[1:]:
                    if isinstance(g[a], float) and (isnan(g[a]) or g[a] == NO_DATA) and not any(core.is_sym(v) for v in vs) is False:
                        pass
                want = {'co_sum': z3.Sum(ts) if len(ts) > 1 else ts[0], 'co_min': zmin(ts), 'co_max': zmax(ts),
                        'co_avg': (z3.Sum(ts) if len(ts) > 1 else ts[0]) / len(ts)}
                for a in ('co_sum', 'co_min', 'co_max', 'co_avg'):
                    if job.get('long'):      # fixed floating-point values: sums and means of doubles are rounded by the code
                        d = zreal(g[a]) - want[a]
                        ok = z3.And(d <= z3.Q(1, 10 ** 9) * 100, d >= -z3.Q(1, 10 ** 9) * 100)
                    else:
                        ok = zreal(g[a]) == want[a]
                    if not ctx.prove(ok, '%s equals the aggregate over exactly the non-NaN values located in the cell' % a):
                        return
                if not ctx.prove(median_holds(zreal(g['co_median']), ts), 'co_median equals the median of the non-NaN values located in the cell'):
                    return
        nn = sum(1 for v in allvals if not isnan(v))
        if total != nn:
            ctx.fail('the counts summed over all cells differ from the number of observations')

    def concrete(self, job, inp):
        from tracklib.core import ENUCoords
        pts, vals = self._inputs(None, inp, job)
        coll, allpts, allvals = build(job['cfg'], pts, vals)
        desc = 'grid %s, observations %r with values %r' % (job['cfg'], allpts, allvals)
        try:
            if job.get('first'):
                r0 = summarize(job['first'], coll)
                [r0.getCell(ENUCoords(x, y, 0)) for x, y in allpts]
            ras = summarize(job['cfg'], coll)
            cells = [ras.getCell(ENUCoords(x, y, 0)) for x, y in allpts]
        except (Exception, SystemExit) as e:
            return dict(violation='%s: summarize raised %s: %s' % (desc, type(e).__name__, e))
        (x0, y0, x1, y1), (rx, ry), margin = CONFIGS[job['cfg']]
        ncol, nrow = ras.ncol, ras.nrow
        grids = {a: ras.getAFMap('f#' + a).grid for a in AGGS}
        out = dict(count=[grids['co_count'][r][c] for r in range(nrow) for c in range(ncol)])
        place = {}
        for i, ((x, y), cr) in enumerate(zip(allpts, cells)):
            if cr is None or not (0 <= cr[0] < ncol and 0 <= cr[1] < nrow):
                return dict(violation='%s: observation %d assigned to %r' % (desc, i, cr), outputs=out)
            c, r = cr
            e = 1e-9
            if not (ras.xmin + c * rx - e <= x <= ras.xmin + (c + 1) * rx + e and ras.ymin + (nrow - 1 - r) * ry - e <= y <= ras.ymin + (nrow - r) * ry + e):
                return dict(violation='%s: observation %d at (%r, %r) assigned to column %d row %d whose footprint does not contain it' % (desc, i, x, y, c, r), outputs=out)
            place.setdefault((c, r), []).append(i)
        total = 0
        for r in range(nrow):
            for c in range(ncol):
                vs = [allvals[i] for i in place.get((c, r), []) if not isnan(allvals[i])]
                g = {a: grids[a][r][c] for a in AGGS}
                total += g['co_count']
                if vs:
                    s = sorted(vs)
                    n = len(s)
                    want = dict(co_count=n, co_sum=sum(vs), co_min=min(vs), co_max=max(vs), co_avg=sum(vs) / n, co_median=s[n // 2] if n % 2 else 0.5 * (s[n // 2 - 1] + s[n // 2]))
                else:
                    want = dict(co_count=0, co_sum=0, co_min=NO_DATA, co_max=NO_DATA, co_avg=NO_DATA, co_median=NO_DATA)
                for a in AGGS:
                    if not (abs(g[a] - want[a]) <= 1e-9 * max(1.0, abs(want[a]))):
                        return dict(violation='%s: cell (column %d, row %d) holds %s = %r, the values located there are %r (expected %r)' % (desc, c, r, a, g[a], [allvals[i] for i in place.get((c, r), [])], want[a]), outputs=out)
        if total != sum(1 for v in allvals if not isnan(v)):
            return dict(violation='%s: counts sum to %r' % (desc, total), outputs=out)
        return dict(violation=None, outputs=out)


CHECK = C19()
