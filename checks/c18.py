"""C18 — time-warping cost is the optimal coupling cost and the matching realises it."""
import sys
import math
import z3
from symx.runner import Check
from symx import core
from symx.lifts import SymNumpy
from symx.core import zreal

CMP = 'tracklib.algo.comparison'


def couplings(n2, n1):
    """all monotone couplings (lists of (i,j)) from (0,0) to (n2-1,n1-1) with steps (1,0),(0,1),(1,1)"""
    out = []

    def rec(i, j, acc):
        if i == n2 - 1 and j == n1 - 1:
            out.append(list(acc))
            return
        for di, dj in ((1, 1), (1, 0), (0, 1)):
            a, b = i + di, j + dj
            if a < n2 and b < n1:
                acc.append((a, b))
                rec(a, b, acc)
                acc.pop()
    rec(0, 0, [(0, 0)])
    return out


def zmax(ts):
    r = ts[0]
    for t in ts[1:]:
        r = z3.If(t > r, t, r)
    return r


def acc_cost(pairs, d, p):
    ts = [d[ij] for ij in pairs]
    if p == 'inf':
        return zmax(ts)
    if p == 2:
        ts = [t * t for t in ts]
    return z3.Sum(ts) if len(ts) > 1 else ts[0]


def build_tracks(n1, n2, h1, h2):
    from tracklib.core import Track, Obs, ENUCoords, ObsTime
    t1 = Track([Obs(ENUCoords(float(j), 1.0, h1[j]), ObsTime.readUnixTime(float(j))) for j in range(n1)])
    t2 = Track([Obs(ENUCoords(float(i), 2.0, h2[i]), ObsTime.readUnixTime(float(i))) for i in range(n2)])
    return t1, t2


def is_coupling(pairs, n2, n1):
    ps = sorted(set(pairs))
    if len(ps) != len(pairs):
        return 'a pair is repeated'
    if ps[0] != (0, 0) or ps[-1] != (n2 - 1, n1 - 1):
        return 'matching does not start at the first pair and end at the last pair'
    for (a, b), (c, d) in zip(ps, ps[1:]):
        if (c - a, d - b) not in ((1, 0), (0, 1), (1, 1)):
            return 'matching is not a monotone coupling advancing one step in either or both tracks'
    if {i for i, _ in ps} != set(range(n2)) or {j for _, j in ps} != set(range(n1)):
        return 'an observation is not linked'
    return None


# long shapes: heights of the two tracks and the indices of the symbolic heights (each within +-0.375 of the listed value; the last observations, so that
# only the last row and column of the coupling lattice carry symbolic costs)
LONG = {
    'wait': ([0.0] * 10 + [5.0, 10.0], [0.0, 5.0] + [10.0] * 10, 11, 11),          # one vehicle waits at the start, the other at the end: the optimal coupling strays 10 cells from the diagonal
    'fan':  ([0.0, 5.0, 10.0], [0.0, 0.5, 1.0, 1.5, 2.0, 2.5, 3.0, 6.0, 9.0, 10.0], 2, 9),      # a coarse track against a dense one
    'one':  ([3.0], [1.0, 2.0, 3.0, 4.0, 5.0, 6.0, 7.0], 0, 6),
    'wait15': ([1.0] * 11 + [4.0, 7.0, 9.0], [1.0, 3.0, 4.0, 7.0] + [9.0] * 11, 13, 14),
    'hill': ([float(min(i, 16 - i)) for i in range(17)], [float(min(2 * i, 18 - 2 * i)) for i in range(10)], 16, 9),
}


def dp_opt(d, n2, n1, p):
    """independent dynamic programme over the coupling lattice: optimal accumulated cost as a float or a z3 term"""
    def mn(a, b):
        if not (z3.is_expr(a) or z3.is_expr(b)):
            return min(a, b)
        a, b = (a if z3.is_expr(a) else z3.RealVal(repr(a))), (b if z3.is_expr(b) else z3.RealVal(repr(b)))
        return z3.If(a <= b, a, b)

    def mx(a, b):
        if not (z3.is_expr(a) or z3.is_expr(b)):
            return max(a, b)
        a, b = (a if z3.is_expr(a) else z3.RealVal(repr(a))), (b if z3.is_expr(b) else z3.RealVal(repr(b)))
        return z3.If(a >= b, a, b)
    w = lambda v: v if p in (1, 'inf') else v * v
    D = {}
    for i in range(n2):
        for j in range(n1):
            prev = [D[q] for q in ((i - 1, j), (i, j - 1), (i - 1, j - 1)) if q in D]
            if not prev:
                D[(i, j)] = w(d[(i, j)])
                continue
            best = prev[0]
            for q in prev[1:]:
                best = mn(best, q)
            D[(i, j)] = mx(best, w(d[(i, j)])) if p == 'inf' else best + w(d[(i, j)])
    return D[(n2 - 1, n1 - 1)]


class C18(Check):
    id = 'C18'
    title = 'Time-warping cost is the optimal coupling cost and the matching realises it'
    functions = ['comparison.match', 'comparison._dtw', 'comparison._fdtw', 'comparison._update_node', 'comparison._fillAF_dtw', 'comparison._p2weight',
                 'comparison._distance', 'utils.priority_dict']
    stubs = ['comparison.np rebound: np.zeros / np.ones tables are object arrays holding z3 terms',
             'comparison.min / max rebound to fork-free If-terms (same value, merges the paths that differ only in which operand won)']
    assumptions = ['dim=1: point distance |U_j - U\'_i| with symbolic heights in [-10,10]; dim=<function>: a free non-negative cost matrix (documented form)',
                   'oracle: all monotone couplings (Delannoy paths) enumerated with their accumulated cost as z3 terms']
    outside = ['sizes beyond the bound', 'p = 0', 'planimetric / 3-D distances (square roots) beyond the free-matrix form', 'float non-associativity of sums']
    budget = {'quick': 150, 'thorough': 2400}

    def bounds(self, tier):
        return dict(sizes='DTW / FRECHET: all (n1,n2) with n1,n2 <= 3' + ('' if tier == 'quick' else ' plus 4x3, 3x4, 4x2, 2x4, 4x4 under the budget')
                          + '; FDTW: n1*n2 <= 6' + ('' if tier == 'quick' else ' and 3x3 on the free matrix'),
                    p=['1 (symbolic heights and free matrix)', 'inf = discrete Frechet (symbolic heights and free matrix)',
                       '2 (free matrix, n1*n2 <= %d: the accumulation rule only; the recursion itself is p-independent)' % (4 if tier == 'quick' else 6)],
                    modes=['DTW', 'FDTW', 'FRECHET'], symmetry='both argument orders of every size pair are jobs; both are proved equal to the same symmetric oracle')

    def jobs(self, tier, seed):
        js = []
        sizes = [(a, b) for a in (1, 2, 3) for b in (1, 2, 3)]
        for (n1, n2) in sizes:
            big = n1 * n2 > 6
            for p in (1, 'inf'):
                for dist in ('heights', 'matrix'):
                    js.append(dict(kind='dtw', n1=n1, n2=n2, mode='DTW', p=p, dist=dist))
                    if not big or (tier == 'thorough' and dist == 'matrix'):
                        js.append(dict(kind='dtw', n1=n1, n2=n2, mode='FDTW', p=p, dist=dist))
            if n1 * n2 <= (4 if tier == 'quick' else 6):
                js.append(dict(kind='dtw', n1=n1, n2=n2, mode='DTW', p=2, dist='matrix'))
                js.append(dict(kind='dtw', n1=n1, n2=n2, mode='FDTW', p=2, dist='matrix'))
            js.append(dict(kind='dtw', n1=n1, n2=n2, mode='FRECHET', p='inf', dist='heights'))
        if tier == 'thorough':
            for (n1, n2) in [(4, 3), (3, 4), (4, 2), (2, 4), (4, 4)]:
                for p in (1, 'inf'):
                    js.append(dict(kind='dtw', n1=n1, n2=n2, mode='DTW', p=p, dist='matrix'))
                js.append(dict(kind='dtw', n1=n1, n2=n2, mode='DTW', p=1, dist='heights'))
        # a history: the first track of the second matching is itself the result of a matching (it already carries the link features)
        for (n1, n2) in ((2, 2), (2, 3), (3, 2)):
            for mode in ('DTW', 'FDTW'):
                js.append(dict(kind='dtw', n1=n1, n2=n2, mode=mode, p=1, dist='heights', again=True))
        js.sort(key=lambda j: -(j['n1'] * j['n2'] * (3 if j['mode'] == 'FDTW' else 1)))
        # scale probes: long tracks with fixed heights (stationary phases, coarse against dense) and two symbolic heights; the oracle is an independent dynamic programme
        for shape in (('wait', 'fan', 'one') if tier == 'quick' else sorted(LONG)):
            for mode in ('DTW', 'FDTW'):
                for p in (1, 'inf'):
                    for swap in (False, True):
                        if tier == 'quick' and (swap and p == 'inf'):
                            continue
                        js.append(dict(kind='long', shape=shape, mode=mode, p=p, swap=swap, n1=0, n2=0))
            if tier != 'quick':
                js.append(dict(kind='long', shape=shape, mode='FRECHET', p='inf', swap=False, n1=0, n2=0))
        # value-kind probes: the exponent p given as a numpy scalar / a Python float
        for pk in ('npint', 'npfloat', 'float'):
            for pv in (1, 2):
                for mode in ('DTW', 'FDTW'):
                    js.append(dict(kind='long', shape='fan', mode=mode, p=pv, pk=pk, swap=False, n1=0, n2=0, fixed=(pv == 2)))      # p = 2: fixed heights (squares of symbolic costs are non-linear)
        return js

    def patches(self, job):
        return [(CMP, 'np', SymNumpy()), (CMP, 'min', core.sym_min), (CMP, 'max', core.sym_max)]

    def _inputs(self, eng, job, concrete=None):
        n1, n2 = job['n1'], job['n2']
        if job['dist'] == 'heights':
            if concrete is None:
                h1 = [eng.real('a%d' % j, -10, 10) for j in range(n1)]
                h2 = [eng.real('b%d' % i, -10, 10) for i in range(n2)]
            else:
                h1 = [float(concrete['a%d' % j]) for j in range(n1)]
                h2 = [float(concrete['b%d' % i]) for i in range(n2)]
            t1, t2 = build_tracks(n1, n2, h1, h2)
            if concrete is None:
                d = {(i, j): z3.If(h1[j].z - h2[i].z >= 0, h1[j].z - h2[i].z, h2[i].z - h1[j].z) for i in range(n2) for j in range(n1)}
            else:
                d = {(i, j): abs(h1[j] - h2[i]) for i in range(n2) for j in range(n1)}
            return t1, t2, d, 1
        # free cost matrix through dim=<function>; positions carry their index in E and their track in N
        if concrete is None:
            c = {(i, j): eng.real('c%d_%d' % (i, j), 0, 10) for i in range(n2) for j in range(n1)}
            d = {k: v.z for k, v in c.items()}
        else:
            c = {(i, j): float(concrete['c%d_%d' % (i, j)]) for i in range(n2) for j in range(n1)}
            d = dict(c)
        t1, t2 = build_tracks(n1, n2, [0.0] * n1, [0.0] * n2)

        def dim(p1, p2):
            if p1.N == 1.0:
                p1, p2 = p2, p1
            return c[(int(p1.E), int(p2.E))]
        return t1, t2, d, dim

    def _run(self, job, t1, t2, dim):
        cmp_ = sys.modules[CMP]
        p = float('inf') if job['p'] == 'inf' else job['p']
        if job.get('pk'):
            import numpy as np
            p = {'npint': np.int64, 'npfloat': np.float64, 'float': float}[job['pk']](p)
        mode = dict(DTW=cmp_.MODE_MATCHING_DTW, FDTW=cmp_.MODE_MATCHING_FDTW, FRECHET=cmp_.MODE_MATCHING_FRECHET)[job['mode']]
        return cmp_.match(t1, t2, mode=mode, p=p, dim=dim, verbose=False, plot=False)

    def _long_inputs(self, eng, job, concrete=None):
        h1, h2, k1, k2 = LONG[job['shape']]
        h1, h2 = list(h1), list(h2)
        if job.get('fixed'):
            h1[k1], h2[k2] = h1[k1] + 0.25, h2[k2] - 0.125
        elif concrete is None:
            h1[k1] = eng.real('a', h1[k1] - 0.375, h1[k1] + 0.375)
            h2[k2] = eng.real('b', h2[k2] - 0.375, h2[k2] + 0.375)
        else:
            h1[k1], h2[k2] = float(concrete['a']), float(concrete['b'])
        if job['swap']:
            h1, h2 = h2, h1
        n1, n2 = len(h1), len(h2)
        t1, t2 = build_tracks(n1, n2, h1, h2)
        d = {}
        for i in range(n2):
            for j in range(n1):
                a, b = h1[j], h2[i]
                if core.is_sym(a) or core.is_sym(b):
                    e = zreal(a) - zreal(b)
                    d[(i, j)] = z3.If(e >= 0, e, -e)
                else:
                    d[(i, j)] = abs(a - b)
        return t1, t2, d, n1, n2

    def _long_path(self, ctx, job):
        eng = ctx.eng
        t1, t2, d, n1, n2 = self._long_inputs(eng, job)
        try:
            m = self._run(job, t1, t2, 1)
        except Exception as e:
            ctx.fail('match raised %s' % type(e).__name__)
            return
        ctx.reach()
        pairs = [(i, j) for j in range(n1) for i in m.getObsAnalyticalFeature('pair', j)]
        ctx.observe(score=m.score, npairs=len(pairs))
        p = job['p']
        best = dp_opt(d, n2, n1, p)
        best = best if z3.is_expr(best) else z3.RealVal(repr(best))
        tol = z3.Q(1, 10 ** 9)
        score = zreal(m.score)
        if not ctx.prove(z3.And(score - best <= tol, best - score <= tol), 'long tracks: the score equals the optimal coupling cost (independent dynamic programme)'):
            return
        bad = is_coupling(pairs, n2, n1)
        if bad:
            ctx.fail('long tracks: ' + bad)
            return
        if m.nb_links != len(pairs):
            ctx.fail('nb_links differs from the number of pairs')
            return
        ts = [d[ij] if z3.is_expr(d[ij]) else z3.RealVal(repr(d[ij])) for ij in sorted(pairs)]
        acc = zmax(ts) if p == 'inf' else z3.Sum([t * t for t in ts] if p == 2 else ts)
        ctx.prove(z3.And(acc - score <= tol, score - acc <= tol), 'long tracks: the accumulated cost of the returned matching equals the reported score')

    def _long_concrete(self, job, inp):
        t1, t2, d, n1, n2 = self._long_inputs(None, job, concrete=inp)
        try:
            m = self._run(job, t1, t2, 1)
        except Exception as e:
            return dict(violation='match raised %s: %s' % (type(e).__name__, e))
        p = job['p']
        pairs = [(i, j) for j in range(n1) for i in m.getObsAnalyticalFeature('pair', j)]
        out = dict(score=float(m.score), npairs=len(pairs))
        best = dp_opt(d, n2, n1, p)
        desc = '%s %s p=%s on tracks of %d and %d observations' % (job['shape'], job['mode'], p, n1, n2)
        if abs(m.score - best) > 1e-9 * max(1.0, abs(best)):
            return dict(violation='%s: score %r, optimal coupling cost %r' % (desc, float(m.score), best), outputs=out)
        bad = is_coupling(pairs, n2, n1)
        if bad:
            return dict(violation='%s: %s: pairs %r' % (desc, bad, pairs), outputs=out)
        if m.nb_links != len(pairs):
            return dict(violation='%s: nb_links %r != %d pairs' % (desc, m.nb_links, len(pairs)), outputs=out)
        ts = [d[ij] for ij in sorted(pairs)]
        acc = max(ts) if p == 'inf' else sum(t ** p for t in ts)
        if abs(acc - m.score) > 1e-9 * max(1.0, abs(acc)):
            return dict(violation='%s: the matching accumulates %r but the reported score is %r' % (desc, acc, float(m.score)), outputs=out)
        return dict(violation=None, outputs=out)

    def path(self, ctx, job):
        if job['kind'] == 'long':
            return self._long_path(ctx, job)
        eng = ctx.eng
        n1, n2 = job['n1'], job['n2']
        t1, t2, d, dim = self._inputs(eng, job)
        try:
            m = self._run(job, t1, t2, dim)
            if job.get('again'):
                m = self._run(job, m, t2, dim)
        except Exception as e:
            ctx.fail('match raised %s' % type(e).__name__)
            return
        score = zreal(m.score)
        pairs = [(i, j) for j in range(n1) for i in m.getObsAnalyticalFeature('pair', j)]
        ctx.observe(score=m.score, npairs=len(pairs))
        ctx.reach()
        p = job['p']
        costs = [acc_cost(c, d, p) for c in couplings(n2, n1)]
        if not ctx.prove(z3.And(z3.Or([score == c for c in costs]), z3.And([score <= c for c in costs])),
                         'score equals the minimum accumulated cost over all monotone couplings'):
            return
        bad = is_coupling(pairs, n2, n1)
        if bad:
            ctx.fail(bad)
            return
        if m.nb_links != len(pairs):
            ctx.fail('nb_links differs from the number of pairs')
            return
        ctx.prove(acc_cost(sorted(pairs), d, p) == score, 'accumulated cost of the returned matching equals the reported score')

    def concrete(self, job, inp):
        if job['kind'] == 'long':
            return self._long_concrete(job, inp)
        n1, n2 = job['n1'], job['n2']
        t1, t2, d, dim = self._inputs(None, job, concrete=inp)
        try:
            m = self._run(job, t1, t2, dim)
            if job.get('again'):
                m = self._run(job, m, t2, dim)
        except Exception as e:
            return dict(violation='match raised %s: %s' % (type(e).__name__, e))
        p = job['p']

        def cost(pairs):
            ts = [d[ij] for ij in pairs]
            return max(ts) if p == 'inf' else sum(t ** p for t in ts)
        pairs = [(i, j) for j in range(n1) for i in m.getObsAnalyticalFeature('pair', j)]
        out = dict(score=float(m.score), npairs=len(pairs))
        best = min(cost(c) for c in couplings(n2, n1))
        tol = 1e-9 * max(1.0, abs(best))
        if abs(m.score - best) > tol:
            return dict(violation='score %r, optimal coupling cost %r' % (float(m.score), best), outputs=out)
        bad = is_coupling(pairs, n2, n1)
        if bad:
            return dict(violation='%s: pairs %r' % (bad, pairs), outputs=out)
        if m.nb_links != len(pairs):
            return dict(violation='nb_links %r != %d pairs' % (m.nb_links, len(pairs)), outputs=out)
        if abs(cost(sorted(pairs)) - m.score) > tol:
            return dict(violation='matching %r accumulates %r but the reported score is %r' % (sorted(pairs), cost(sorted(pairs)), float(m.score)), outputs=out)
        return dict(violation=None, outputs=out)


CHECK = C18()
