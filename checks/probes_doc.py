"""One-line statement, per check, of the scale probes (DESIGN.md 9.1) and of the value-kind / aliasing / leftover-state probes (9.2);
merged into coverage.bounds of every evidence file by the runner."""
PROBES = {
    'C01': 'scale: 12-term expressions; 300 [129, 300, 1000]-observation tracks with two symbolic entries per vector. kinds: one scalar of kind text / bytes / tuple / None / bool / numpy / int / dict through create, []=, update',
    'C02': 'scale: 12..16-operator flat and right-nested chains, late aggregates, 17 / 33-observation aggregates. kinds: truth-valued operands of + - *',
    'C03': 'alias: two conversions of one instant with the first result edited in between; state: conversions after calls refused with an exception',
    'C04': 'scale: 15..59-observation tracks with fixed instants for insertion, span, trims, %, removal, +; permuted feature columns. kinds: % patterns of bools, numpy bools, ints, floats; alias: index list reused on a second track',
    'C05': 'scale: 8..24-fix uneven tracks, whole and fractional-millisecond steps, fixed sampling distances, symbolic heights. kinds: step as int / numpy float / numpy int; state: stale abs_curv then in-place edit',
    'C06': 'kinds: integer node and edge ids from 0; state: an earlier all-pairs call with the default cut-off',
    'C07': 'scale: 34..62-vertex edge polylines; finite search radius >= true distance. kinds: integer ids from 0; alias: returned path translated in place before asking again',
    'C08': 'scale: 16 x 16 grid, long oblique segments, sparse-inventory neighbourhoods; cell size larger than the extent. kinds: float / binary64 / binary32 / int coordinates on a projected-magnitude grid; state: track moved in place and queried again',
    'C09': 'scale: 9..17-candidate epochs; 8..12 epochs of large-magnitude logs. alias: one candidate-list object for all epochs; kinds: candidates as tuple / lazy sequence',
    'C10': 'scale: 24-edge street grid on a coarse index; 9-vertex road. state: network translated in place, index rebuilt, matched again',
    'C11': 'the same feature tested twice with two thresholds; alias: pieces of split are new objects, input not renamed, editing a piece leaves the input alone',
    'C12': 'scale: 7..12 candidates with a fixed matrix and two symbolic entries. kinds: uint8 / int16 / bool / float32 / int64 matrices; state: segmentation repeated after an in-place edit',
    'C13': 'scale: 63..300-observation CSV / GPX round trips, multi-track GPX collections in both file modes. state: refused GPX export then CSV; kinds: numpy / int coordinates in WKT and network geometries',
    'C14': 'scale: 31..200-observation whole-track conversions; near-base re-basing. state: base object edited in place and used again',
    'C15': 'scale: 9..21-weight windows, wide kernel objects. alias: the returned window list rescaled by the caller',
    'C16': 'scale: 63..520-fix tracks of four shapes. kinds: numpy / int coordinates; state: simplify, move fixes in place, simplify again',
    'C17': 'scale: 127..400-fix abscissa, 31..130-fix speed with repeated timestamps. kinds: numpy time fields; alias: loop(add=True) copy, window measured before the whole track',
    'C18': 'scale: 12..17-observation stationary-phase and coarse-vs-dense pairs with a DP oracle. kinds: exponent as numpy int / float',
    'C19': 'scale: 31..200-observation collections. state: the same collection summarised on another grid first',
    'C20': 'scale: 40 / 70-vertex zigzags, out-and-back reference, track-mode mapOnTrack. kinds: numpy polylines / query scalars; state: reference moved in place between two projections',
}
