"""C07 — a returned shortest path is a real, optimal, geometrically continuous route."""
import random
import z3
from symx.runner import Check
from symx.core import zreal
from checks import netlib
from checks.c06 import _nodes, WMAX


def coords(track):
    return [(o.position.getX(), o.position.getY()) for o in track.getObsList()] if hasattr(track, 'getObsList') else \
        [(track.getObs(i).position.getX(), track.getObs(i).position.getY()) for i in range(track.size())]


def mutate_path(p):
    """what a caller may do with a path it received: move every point of it in place"""
    for i in range(p.size()):
        pos = p.getObs(i).position
        pos.setX(pos.getX() + 3.5)
        pos.setY(pos.getY() - 1.25)


def hop_candidates(topo, u, v, style):
    """edges traversable from u to v with their polyline oriented along the direction of travel"""
    out = []
    for (a, b, i) in netlib.arcs(topo):
        if a == u and b == v:
            g = netlib.geometry(topo, i, style)
            if topo[i][0] != u:
                g = g[::-1]
            out.append((i, g))
    return out


def decode(topo, nodes_path, xy, style):
    """all edge sequences whose chained, travel-oriented polylines (junction vertices once) equal the returned geometry"""
    res = []

    def rec(h, pos, used):
        if h == len(nodes_path) - 1:
            if pos == len(xy):
                res.append(list(used))
            return
        for (i, g) in hop_candidates(topo, nodes_path[h], nodes_path[h + 1], style):
            chunk = g[1:]
            if xy[pos:pos + len(chunk)] == chunk:
                rec(h + 1, pos + len(chunk), used + [i])
    if xy and xy[0] == netlib.NODE_POS[nodes_path[0]]:
        rec(0, 1, [])
    return res


class C07(Check):
    id = 'C07'
    title = 'A returned shortest path is a real, optimal, geometrically continuous route'
    functions = ['Network.shortest_path', 'Network.run_routing_forward', 'Network.run_routing_backward', 'Track.reverse', 'Track.__gt__', 'Track.__add__']
    stubs = ['none']
    assumptions = ['edge weights symbolic reals in [0,1000]; edge geometries are concrete polylines (2-4 vertices) stored from the edge source to its target; node positions concrete and distinct',
                   'cut jobs: shortest_path(source, target, cut) with a symbolic search radius assumed not below the true distance (the target is within reach, so the same route is due)',
                   'long jobs: edge polylines of 34..62 unique vertices',
                   'oracle: minimum over all simple permitted walks; geometry decoded against the chained travel-oriented polylines of permitted edges']
    outside = ['source == target', 'A* mode', 'negative weights', 'topologies beyond the enumerated / sampled ones']
    budget = {'quick': 170, 'thorough': 2400}

    def bounds(self, tier):
        return dict(topologies='all multigraphs with 1..3 edges on <= 3 nodes' + (' (3-edge ones: seeded 40% per geometry style)' if tier == 'quick' else
                                                                                 ' + 400 seeded topologies with 4-5 nodes / 4-7 edges, two-way K4'),
                    pairs='every ordered pair source != target', weights='symbolic reals in [0,1000] per edge',
                    geometry_styles=['mid: unique intermediate vertices per edge (the edge used is read off the geometry)', 'plain: two end vertices only'],
                    repeated_queries='every job asks the same path twice on the same network object (state carried between queries)')

    def jobs(self, tier, seed):
        rng = random.Random(seed + 7)
        N3 = ['n0', 'n1', 'n2']
        js = []
        for k in (1, 2, 3):
            for topo in netlib.topologies(N3, k):
                for style in ('mid', 'plain'):
                    if k == 3 and tier == 'quick' and rng.random() > 0.4:
                        continue
                    for s in N3:
                        for t in N3:
                            if s != t:
                                js.append(dict(kind='path', topo=topo, s=s, t=t, style=style))
        # scale / configuration probes: polylines of 34..62 vertices per edge; a finite search radius (cut) that is not below the true distance
        for k in (1, 2, 3):
            for topo in netlib.topologies(N3, k):
                for s in N3:
                    for t in N3:
                        if s == t:
                            continue
                        r = rng.random()
                        if r < {1: 1.0, 2: 0.25, 3: 0.01}[k] * (1 if tier == 'quick' else 4):
                            js.append(dict(kind='path', topo=topo, s=s, t=t, style='long'))
                        r = rng.random()
                        if r < {1: 1.0, 2: 0.5, 3: 0.02}[k] * (1 if tier == 'quick' else 4):
                            js.append(dict(kind='path', topo=topo, s=s, t=t, style='plain', cut=True))
        # value-kind probes: nodes and edges identified by the integers 0, 1, 2 (0 is falsy); aliasing probes: the path returned by the first
        # query is translated in place by the caller before the same query is asked again
        for k in (1, 2, 3):
            for ti, topo in enumerate(netlib.topologies(N3, k)):
                if k == 3 and (ti % (41 if tier == 'quick' else 5)) != 0:
                    continue
                if k == 2 and tier == 'quick' and ti % 3 != 0:
                    continue
                it = netlib.int_ids(topo)
                for s in (0, 1, 2):
                    for t in (0, 1, 2):
                        if s != t:
                            js.append(dict(kind='path', topo=it, s=s, t=t, style='mid', ids='int'))
                            js.append(dict(kind='path', topo=topo, s='n%d' % s, t='n%d' % t, style='mid', mutate=True))
        # a dense 5-node multigraph (three parallel edges, mixed orientations): most weights concrete, the parallel and two further
        # weights symbolic, so that one search performs several decrease-key operations (priority-queue clean-up paths)
        dense = [('n0', 'n1', 0), ('n1', 'n2', 0), ('n0', 'n1', 0), ('n0', 'n3', 1), ('n1', 'n2', 1), ('n1', 'n0', 0), ('n1', 'n3', 0), ('n1', 'n4', 0), ('n3', 'n2', 0)]
        fixed = {1: 8.0, 3: 11.0, 4: 18.0, 6: 29.0, 7: 19.0}
        N5 = ['n0', 'n1', 'n2', 'n3', 'n4']
        for s, t in (('n1', 'n3'), ('n4', 'n2')) if tier == 'quick' else [(a, b) for a in N5 for b in N5 if a != b]:
            js.append(dict(kind='path', topo=dense, s=s, t=t, style='plain', fixed=fixed))
            js.append(dict(kind='path', topo=dense, s=s, t=t, style='plain', fixed=fixed, cut=True))
        if tier == 'thorough':
            extra = []
            for _ in range(400):
                extra.append(netlib.random_topology(rng, rng.choice((4, 4, 5)), rng.randint(4, 7)))
            N4 = ['n0', 'n1', 'n2', 'n3']
            extra.append([(a, b, 0) for i, a in enumerate(N4) for b in N4[i + 1:]])
            for topo in extra:
                ns = _nodes(topo)
                for _ in range(3):
                    s, t = rng.sample(ns, 2)
                    js.append(dict(kind='path', topo=topo, s=s, t=t, style=rng.choice(('mid', 'plain'))))
        return js

    def path(self, ctx, job):
        eng = ctx.eng
        topo = [tuple(e) for e in job['topo']]
        fx = {int(k): v for k, v in (job.get('fixed') or {}).items()}
        W = [fx[i] if i in fx else eng.real('w%d' % i, 0, 30 if fx else WMAX) for i in range(len(topo))]
        Wz = [zreal(w) for w in W]
        ints = job.get('ids') == 'int'
        nodes = _nodes(topo, base=(0, 1, 2)) if ints else _nodes(topo)
        style = job['style']
        net = netlib.build(topo, W, nodes, style, int_edge_ids=ints)
        s, t = job['s'], job['t']
        sums = netlib.walk_sums(topo, s, t, Wz)
        kw = {}
        if job.get('cut'):
            cut = eng.real('cut', 0, 4 * WMAX)
            if sums:
                eng.assume(z3.Or([x <= cut.z for x in sums]))        # the search radius is not below the true distance: the target is within reach
            kw = dict(cut=cut)
        for rnd in (1, 2):
            try:
                p = net.shortest_path(s, t, **kw)
            except Exception as e:
                ctx.fail('shortest_path raised %s (query %d)' % (type(e).__name__, rnd))
                return
            ctx.reach()
            if not sums:
                if p is not None:
                    ctx.fail('a path is returned although the target is unreachable')
                    return
                continue
            if p is None:
                ctx.fail('no path returned although the target is reachable')
                return
            npth = list(p.path)
            xy = coords(p)
            if rnd == 1:
                ctx.observe(npath=[nodes.index(n) for n in npth], nvert=len(xy))
            if not npth or npth[0] != s or npth[-1] != t:
                ctx.fail('node list does not run from the source to the target')
                return
            for u, v in zip(npth, npth[1:]):
                if not hop_candidates(topo, u, v, style):
                    ctx.fail('consecutive nodes are not joined by an edge traversable in that direction')
                    return
            seqs = decode(topo, npth, xy, style)
            if not seqs:
                ctx.fail('geometry is not the travel-oriented chain of the polylines of edges along the node list (query %d)' % rnd)
                return
            d = zreal(net.NODES[t].poids)
            ok = z3.Or([(z3.Sum([Wz[i] for i in q]) if len(q) > 1 else Wz[q[0]]) == d for q in seqs])
            if not ctx.prove(z3.And(ok, netlib.is_min(d, sums)), 'weights of the edges used sum to the shortest distance (query %d)' % rnd):
                return
            if job.get('mutate') and rnd == 1:
                mutate_path(p)

    def concrete(self, job, inp):
        topo = [tuple(e) for e in job['topo']]
        fx = {int(k): v for k, v in (job.get('fixed') or {}).items()}
        W = [float(fx[i]) if i in fx else float(inp['w%d' % i]) for i in range(len(topo))]
        ints = job.get('ids') == 'int'
        nodes = _nodes(topo, base=(0, 1, 2)) if ints else _nodes(topo)
        style = job['style']
        net = netlib.build(topo, W, nodes, style, int_edge_ids=ints)
        D = netlib.floyd(topo, W, nodes)
        s, t = job['s'], job['t']
        true = D[(s, t)]
        outputs = {}
        kw = {}
        if job.get('cut'):
            if true != float('inf') and float(inp['cut']) < true:
                return dict(violation=None, outputs={})
            kw = dict(cut=float(inp['cut']))
        for rnd in (1, 2):
            try:
                p = net.shortest_path(s, t, **kw)
            except Exception as e:
                return dict(violation='shortest_path raised %s: %s (query %d)' % (type(e).__name__, e, rnd))
            if true == float('inf'):
                if p is not None:
                    return dict(violation='path returned for unreachable pair %s->%s' % (s, t))
                continue
            if p is None:
                return dict(violation='no path returned for reachable pair %s->%s (distance %r)' % (s, t, true))
            npth = list(p.path)
            xy = coords(p)
            if rnd == 1:
                outputs = dict(npath=[nodes.index(n) for n in npth], nvert=len(xy))
            if not npth or npth[0] != s or npth[-1] != t:
                return dict(violation='node list %r does not run from %s to %s (query %d)' % (npth, s, t, rnd), outputs=outputs)
            for u, v in zip(npth, npth[1:]):
                if not hop_candidates(topo, u, v, style):
                    return dict(violation='nodes %s->%s of the path are not joined by a permitted edge' % (u, v), outputs=outputs)
            seqs = decode(topo, npth, xy, style)
            if not seqs:
                return dict(violation='geometry %r is not the chained travel-oriented polylines along %r (query %d)' % (xy, npth, rnd), outputs=outputs)
            if not any(abs(sum(W[i] for i in q) - true) <= 1e-9 * max(1, true) for q in seqs):
                return dict(violation='edges used %r weigh %r, shortest distance is %r (query %d)' % (seqs, [sum(W[i] for i in q) for q in seqs], true, rnd), outputs=outputs)
            if job.get('mutate') and rnd == 1:
                mutate_path(p)
        return dict(violation=None, outputs=outputs)


CHECK = C07()
