"""C09 — hidden-Markov decoding returns a maximum-likelihood state sequence."""
import sys
import math
import itertools
import z3
from symx.runner import Check
from symx import core
from symx.core import zreal

DYN = 'tracklib.algo.dynamics'
LOG_TINY = math.log(1e-300)


def make_track(T):
    from tracklib.core import Track, Obs, ENUCoords, ObsTime
    tr = Track([Obs(ENUCoords(float(k), 0.0, 0.0), ObsTime.readUnixTime(float(k))) for k in range(T)])
    tr.createAnalyticalFeature('yobs', [10.0 + k for k in range(T)])
    return tr


def state(k, l):
    return 's%d_%d' % (k, l)


def sequences(S):
    return list(itertools.product(*[range(n) for n in S]))


class Model:
    """the HMM handed to tracklib: per-epoch candidate lists, time-dependent tables; records protocol errors"""

    def __init__(self, S, lp, lq, track, variant=None):
        self.S, self.lp, self.lq, self.track = S, lp, lq, track
        self.errors = []
        self.variant = variant
        self.shared = ['u%d' % l for l in range(S[0])]       # variant 'shared': ONE list object of epoch-independent labels handed out at every epoch

    def label(self, k, l):
        return 'u%d' % l if self.variant == 'shared' else state(k, l)

    def states(self, track, k):
        if self.variant == 'shared':
            return self.shared
        if self.variant == 'tuple':
            return tuple(state(k, l) for l in range(self.S[k]))
        if self.variant == 'range':          # candidates given as a lazy sequence of labels
            return _Labels(k, self.S[k])
        return [state(k, l) for l in range(self.S[k])]

    def Q(self, s1, s2, k, track):
        if self.variant == 'shared':
            try:
                return self.lq[k][int(s1[1:])][int(s2[1:])]
            except Exception:
                self.errors.append('transition model queried with a non-state %r / %r' % (s1, s2))
                return 0.0
        try:
            k1, m = [int(v) for v in s1[1:].split('_')]
            k2, l = [int(v) for v in s2[1:].split('_')]
        except Exception:
            self.errors.append('transition model queried with a non-state %r / %r' % (s1, s2))
            return 0.0
        if k1 != k or k2 != k + 1:
            self.errors.append('transition model queried for states of epochs %d -> %d with epoch argument %d' % (k1, k2, k))
            return 0.0
        return self.lq[k][m][l]

    def P(self, s, y, k, track):
        if self.variant == 'shared':
            try:
                return self.lp[k][int(s[1:])]
            except Exception:
                self.errors.append('observation model queried with a non-state %r' % (s,))
                return 0.0
        try:
            k1, l = [int(v) for v in s[1:].split('_')]
        except Exception:
            self.errors.append('observation model queried with a non-state %r' % (s,))
            return 0.0
        if k1 != k or y != 10.0 + k:
            self.errors.append('observation model queried for a state of epoch %d with epoch argument %d and observation %r' % (k1, k, y))
            return 0.0
        return self.lp[k][l]


class _Labels:
    """a sequence that is not a list (like range): indexable, sized, iterable"""

    def __init__(self, k, n):
        self.k, self.n = k, n

    def __len__(self):
        return self.n

    def __getitem__(self, i):
        if not 0 <= i < self.n:
            raise IndexError(i)
        return state(self.k, i)

    def __iter__(self):
        return iter([state(self.k, i) for i in range(self.n)])


def log_axioms(x, out):
    # monotone, bounded stub of log on [1e-50 + 1e-300, 1 + 1e-300]
    return [z3.And(out.z >= z3.Q(-1152, 10), out.z <= z3.Q(691, 100))]


class C09(Check):
    id = 'C09'
    title = 'Hidden-Markov decoding returns a maximum-likelihood state sequence'
    functions = ['dynamics.HMM.estimate', 'dynamics.HMM.Qlog', 'dynamics.HMM.Plog', 'Track.setObsAnalyticalFeature']
    stubs = ['dynamics.math rebound: math.log of a symbolic argument is an uninterpreted function realised by memoisation (same term => same variable), '
             'bounded by log(1e-50) <= log(x) <= log(1000) + 0.01 and pairwise monotone over the arguments met on the path; math.log of a constant is the real math.log',
             'np.argmin on the list of proxies runs for real (object array, comparisons fork)']
    assumptions = ['log mode: every observation / transition log-likelihood is a symbolic real in [-100, 100] (unnormalised models: positive logs allowed)',
                   'likelihood mode: every likelihood is either exactly 0 or a symbolic real in [1e-50, 1000] (unnormalised: likelihoods above 1 allowed); the decoded sequence is proved to minimise the sum of the '
                   '-log(p + 1e-300) terms the code forms (log uninterpreted + monotone), which is the maximum-likelihood sequence under the true logarithm up to the 1e-300 regulariser; '
                   'for a single epoch (one factor) the product criterion itself is proved (chosen likelihood >= every other)',
                   'states are distinct per epoch; the model tables are time dependent, and a query of Q or P with an epoch argument that does not match its states is a violation']
    outside = ['likelihoods in (0, 1e-50)', 'additivity of the true logarithm (log of a product) and its floating-point evaluation', 'T or S beyond the bound',
               'MODE_OBS_AS_2D/3D_POSITIONS observation packing']
    budget = {'quick': 150, 'thorough': 2400}

    def bounds(self, tier):
        return dict(models=[j['S'] for j in self.jobs(tier, 0) if j['mode'] == 'log'],
                    modes=['log (log-likelihood tables)', 'lik (likelihood tables incl. exact zeros; same-cost link to log mode)'],
                    note='one path per consistent outcome of all predecessor comparisons; T=2 with a free first column is the generic forward step')

    def jobs(self, tier, seed):
        shapes = [(1,), (2,), (3,), (1, 1), (2, 1), (1, 2), (2, 2), (3, 2), (2, 3), (1, 1, 1), (2, 2, 2), (1, 2, 2), (2, 1, 2), (2, 2, 1), (2, 3, 2)]
        if tier == 'thorough':
            shapes += [(3, 3), (3, 2, 2), (2, 2, 3), (2, 2, 2, 2), (3, 3, 2), (2, 3, 3), (3, 3, 3), (1, 2, 3, 2), (2, 2, 2, 2, 2)]
        js = []
        for S in shapes:
            js.append(dict(kind='hmm', S=list(S), mode='log'))
            nf = sum(S) + sum(a * b for a, b in zip(S, S[1:]))
            if nf <= (10 if tier == 'quick' else 14):
                js.append(dict(kind='hmm', S=list(S), mode='lik'))
        # aliasing / value-kind probes: one shared candidate list object for every epoch with time-dependent tables; candidates handed over as a tuple / a lazy sequence
        for S in ((2, 2), (2, 2, 2), (3, 3)) if tier == 'quick' else ((2, 2), (2, 2, 2), (3, 3), (3, 3, 3), (2, 2, 2, 2)):
            js.append(dict(kind='hmm', S=list(S), mode='log', variant_model='shared'))
        for S in ((2, 1), (2, 2), (2, 3, 2)):
            for vm in ('tuple', 'range'):
                js.append(dict(kind='hmm', S=list(S), mode='log', variant_model=vm))
        # scale probes (log form): wide epochs and long / large-magnitude models; every table entry is a fixed number except the listed ones
        wide = [((9, 2), 100), ((10, 3), 100), ((2, 9, 2), 100)] + ([] if tier == 'quick' else [((12, 12), 100), ((3, 16, 2), 100), ((17, 2), 50)])
        for S, mag in wide:
            k = max(range(len(S)), key=lambda i: S[i])
            syms = ['p%d_1' % k, 'p%d_%d' % (k, S[k] - 2)] + (['q%d_1_0' % k, 'q%d_%d_1' % (k, S[k] - 2)] if k + 1 < len(S) else ['q%d_0_1' % (k - 1), 'q%d_1_%d' % (k - 1, S[k] - 2)])
            for variant in (0, 1):
                js.append(dict(kind='hmm', S=list(S), mode='log', fixed=mag, variant=variant, syms=syms))
        for T, mag in ([(10, 1500)] if tier == 'quick' else [(8, 1500), (10, 1500), (12, 2500), (12, 100)]):
            for variant in (0, 2):
                js.append(dict(kind='hmm', S=[2] * T, mode='log', fixed=mag, variant=variant, syms=['p1_0', 'q%d_1_0' % (T - 2), 'p%d_1' % (T - 1)]))
        js.sort(key=lambda j: -sum(a * b for a, b in zip(j['S'], j['S'][1:])) * (2 if j['mode'] == 'lik' else 1))
        return js

    def patches(self, job):
        return [(DYN, 'math', core.SymMath({'log': log_axioms}))]

    def _tables(self, eng, job, inp=None):
        S = job['S']
        T = len(S)

        def val(name):
            if job.get('fixed') and name not in job['syms']:
                # deterministic pseudo-random log-likelihood of either sign: dyadic, in [-mag, mag/4] (variant 1: in [-mag/4, mag])
                import zlib
                h = zlib.crc32(('%s/%d' % (name, job['variant'])).encode()) % 4096
                v = (h / 4096.0) * 1.25 - 1.0
                if job['variant'] == 2:      # every factor very unlikely: log-likelihoods in [-mag, -mag/2], accumulated costs grow by ~mag per factor
                    return -float(job['fixed']) * (0.5 + h / 8192.0)
                return float(job['fixed']) * (v if job['variant'] == 0 else -v)
            if inp is not None:
                v = inp[name]
                return float(v)
            if job['mode'] == 'log':
                return eng.real(name, -100, 100)
            if eng.branch(z3.Bool(name + '?zero')):
                eng.inputs[name] = 0.0
                if name not in eng.input_order:
                    eng.input_order.append(name)
                return 0.0
            return eng.real(name, 1e-50, 1000)
        lp = [[val('p%d_%d' % (k, l)) for l in range(S[k])] for k in range(T)]
        lq = [[[val('q%d_%d_%d' % (k, m, l)) for l in range(S[k + 1])] for m in range(S[k])] for k in range(T - 1)]
        return lp, lq

    def _decode(self, job, lp, lq, log):
        dyn = sys.modules[DYN]
        S = job['S']
        if True:
            # leftover-state probe: an earlier, unrelated decoding in the same process (other track, other candidate labels, fixed tables)
            wtr = make_track(3)
            wst = [['w%d_%d' % (k, l) for l in range(2)] for k in range(3)]
            whmm = dyn.HMM(lambda t, k: wst[k], lambda a, b, k, t: -1.0 - 0.5 * (a[-1] != b[-1]), lambda st, y, k, t: -0.25 * int(st[-1]), log=True)
            whmm.estimate(wtr, 'yobs', mode=dyn.MODE_OBS_AS_SCALAR, verbose=0)
        tr = make_track(len(S))
        mdl = Model(S, lp, lq, tr, job.get('variant_model'))
        hmm = dyn.HMM(mdl.states, mdl.Q, mdl.P, log=log)
        hmm.estimate(tr, 'yobs', mode=dyn.MODE_OBS_AS_SCALAR, verbose=0)
        return tr, mdl

    def path(self, ctx, job):
        eng = ctx.eng
        S = job['S']
        T = len(S)
        lp, lq = self._tables(eng, job)
        islog = job['mode'] == 'log'
        try:
            tr, mdl = self._decode(job, lp, lq, islog)
        except Exception as e:
            ctx.fail('estimate raised %s' % type(e).__name__)
            return
        if mdl.errors:
            ctx.fail(mdl.errors[0].split(' for ')[0])
            return
        inf = [tr.getObsAnalyticalFeature('hmm_inference', k) for k in range(T)]
        cost = [tr.getObsAnalyticalFeature('hmm_cost', k) for k in range(T)]
        if islog:
            ctx.observe(cost_last=cost[-1])
        ctx.reach()
        idx = []
        for k in range(T):
            cands = [mdl.label(k, l) for l in range(S[k])]
            if inf[k] not in cands:
                ctx.fail('assigned state is not one of the epoch\'s candidates')
                return
            idx.append(cands.index(inf[k]))
        ctx.note = 'decoded %r' % (idx,)
        m = core.SymMath({'log': log_axioms})

        def c(v):      # cost term of one factor exactly as documented: -log-likelihood
            if islog:
                return -zreal(v)
            lv = m.log(v + 1e-300)     # memoised: the very variable the code obtained for this factor
            return -zreal(lv)

        def seqcost(seq):
            ts = [c(lp[k][seq[k]]) for k in range(T)] + [c(lq[k][seq[k]][seq[k + 1]]) for k in range(T - 1)]
            return z3.Sum(ts) if len(ts) > 1 else ts[0]
        mine = seqcost(idx)
        allc = [seqcost(s) for s in sequences(S)]
        # likelihood mode: exact zeros become the concrete double log(1e-300); sums of such constants are rounded by the code,
        # so equalities carry the 1e-9 tolerance DESIGN.md grants to concrete irrational constants (log mode is exact)
        tol = z3.RealVal(0) if islog else z3.Q(1, 10 ** 9)
        if not ctx.prove(z3.And([mine <= a + tol for a in allc]), 'the assigned sequence attains the optimum over all candidate sequences'):
            return
        if not ctx.prove(z3.And(zreal(cost[-1]) - mine <= tol, mine - zreal(cost[-1]) <= tol), 'the cost recorded at the last epoch equals the optimum'):
            return
        if not islog:
            if T == 1:
                # product criterion for a single factor, using monotonicity of log
                ps = [zreal(v) for v in lp[0]]
                logs = [zreal(m.log(v + 1e-300)) for v in lp[0]]
                mono = [z3.Implies(ps[a] < ps[b], logs[a] < logs[b]) for a in range(len(ps)) for b in range(len(ps)) if a != b]
                eng.assume(z3.And(mono) if mono else z3.BoolVal(True))
                ctx.prove(z3.And([ps[idx[0]] >= p for p in ps]), 'single epoch: the assigned state has the largest likelihood')
            # the same model supplied directly as logarithms gives a sequence of the same optimal cost
            llp = [[m.log(v + 1e-300) for v in row] for row in lp]
            llq = [[[m.log(v + 1e-300) for v in r] for r in mat] for mat in lq]
            try:
                tr2, mdl2 = self._decode(job, llp, llq, True)
            except Exception as e:
                ctx.fail('estimate (log form) raised %s' % type(e).__name__)
                return
            c2 = tr2.getObsAnalyticalFeature('hmm_cost', T - 1)
            ctx.prove(z3.And(zreal(c2) - zreal(cost[-1]) <= tol, zreal(cost[-1]) - zreal(c2) <= tol), 'supplying the likelihoods as logarithms yields the same optimal cost')

    def concrete(self, job, inp):
        S = job['S']
        T = len(S)
        lp, lq = self._tables(None, job, inp)
        islog = job['mode'] == 'log'
        try:
            tr, mdl = self._decode(job, lp, lq, islog)
        except Exception as e:
            return dict(violation='estimate raised %s: %s' % (type(e).__name__, e))
        if mdl.errors:
            return dict(violation=mdl.errors[0])
        inf = [tr.getObsAnalyticalFeature('hmm_inference', k) for k in range(T)]
        cost = [tr.getObsAnalyticalFeature('hmm_cost', k) for k in range(T)]
        out = dict(cost_last=float(cost[-1]))
        idx = []
        for k in range(T):
            cands = [mdl.label(k, l) for l in range(S[k])]
            if inf[k] not in cands:
                return dict(violation='epoch %d assigned %r which is not one of its candidates %r' % (k, inf[k], cands), outputs=out)
            idx.append(cands.index(inf[k]))

        def c(v):
            return -v if islog else -math.log(v + 1e-300)

        def seqcost(seq):
            return sum(c(lp[k][seq[k]]) for k in range(T)) + sum(c(lq[k][seq[k]][seq[k + 1]]) for k in range(T - 1))
        best = min(seqcost(s) for s in sequences(S))
        tol = 1e-9 * max(1.0, abs(best))
        if seqcost(idx) > best + tol:
            return dict(violation='decoded sequence %r has cost %r, the optimum over all %d sequences is %r' % (idx, seqcost(idx), len(sequences(S)), best), outputs=out)
        if abs(cost[-1] - best) > tol:
            return dict(violation='hmm_cost at the last epoch is %r, the optimum is %r' % (float(cost[-1]), best), outputs=out)
        if not islog:
            llp = [[math.log(v + 1e-300) for v in row] for row in lp]
            llq = [[[math.log(v + 1e-300) for v in r] for r in mat] for mat in lq]
            tr2, _ = self._decode(job, llp, llq, True)
            c2 = tr2.getObsAnalyticalFeature('hmm_cost', T - 1)
            if abs(c2 - cost[-1]) > tol:
                return dict(violation='log-form run has optimal cost %r, likelihood-form run %r' % (float(c2), float(cost[-1])), outputs=out)
        return dict(violation=None, outputs=out)


CHECK = C09()
