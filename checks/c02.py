"""C02 — algebraic feature expressions evaluate to ordinary arithmetic on the features."""
import sys
import random
import itertools
import z3
from symx.runner import Check
from symx import core
from symx.lifts import std_patches
from checks import aflib
from checks.aflib import NAN, UNDEF, isnan, render, evaluate_full, ZAlg, FAlg

TRK = 'tracklib.core.track'
UTL = 'tracklib.core.utils'
OPS = 'tracklib.core.operators'

BINOPS = ['+', '-', '*', '/', '<', '>']
LEAVES = [('name', 'a'), ('name', 'b'), ('name', 'x'), ('name', 'idx'), ('name', 't'), ('num', '2'), ('num', '0.5'), ('ext', 'k')]
SMALL_LEAVES = [('name', 'a'), ('name', 'b'), ('num', '2'), ('ext', 'k')]
SMALL_FUNCS = ['D', 'SUM', 'ABS', 'I']


def depth1(leaves, funcs, binops):
    out = []
    for op in binops:
        for l in leaves:
            for r in leaves:
                out.append(('bin', op, l, r))
    for l in leaves:
        for e in ('2', '3', '0.5'):
            out.append(('bin', '^', l, ('num', e)))
    for f in funcs:
        for l in leaves:
            if l[0] == 'name':
                out.append(('fun', f, l))
    for l in leaves:
        out.append(('neg', l))
    return out


def tojson(t):
    return list(tojson(x) if isinstance(x, tuple) else x for x in t)


def fromjson(t):
    return tuple(fromjson(x) if isinstance(x, list) else x for x in t)


def random_tree(rng, d):
    if d == 0 or rng.random() < 0.15:
        return rng.choice(LEAVES)
    r = rng.random()
    if r < 0.62:
        op = rng.choice(BINOPS + ['+', '-', '*', '/'])
        return ('bin', op, random_tree(rng, d - 1), random_tree(rng, d - 1))
    if r < 0.72:
        return ('bin', '^', random_tree(rng, d - 1), ('num', rng.choice(['2', '3', '0.5'])))
    if r < 0.92:
        sub = random_tree(rng, d - 1)
        if aflib.is_scalar(sub):
            sub = rng.choice([l for l in LEAVES if l[0] == 'name'])
        return ('fun', rng.choice(aflib.FUNCS), sub)
    return ('neg', random_tree(rng, d - 1))


def fun_arg_ok(t):
    """function arguments must be feature-valued (F{2} is not part of the documented grammar)"""
    if t[0] in ('name', 'num', 'ext'):
        return True
    if t[0] == 'fun':
        return (not aflib.is_scalar(t[2])) and fun_arg_ok(t[2])
    if t[0] == 'neg':
        return fun_arg_ok(t[1])
    return fun_arg_ok(t[2]) and fun_arg_ok(t[3])


class C02(Check):
    id = 'C02'
    title = 'Algebraic feature expressions evaluate to ordinary arithmetic on the features'
    functions = ['Track.operate', 'Track.__evaluate', 'Track.__evaluateRPN', 'Track.__applyOperation', 'utils.makeRPN', 'operators.* (pointwise, finite differences, aggregates, scalar forms)']
    stubs = ['track.float/int, utils.float, operators.float rebound to lifted classes (float(<symbolic>) is the identity, float("a") still raises ValueError)',
             'operators.math rebound: sqrt of a symbolic value is r >= 0 with r*r = x (forks on the domain)',
             'proxies hash by identity inside the evaluator (an external scalar is tested with `in` against the feature table)']
    assumptions = ['the expression string is produced from a tree by the harness (minimal and fully parenthesised renderings); the oracle evaluates the tree, never the string',
                   'feature vectors a, b and the coordinate x are symbolic reals in [-8, 8], exactly 0 or of magnitude >= 1/1024 (a: real-or-NaN in the NaN jobs); t and idx are concrete; the external scalar k is symbolic',
                   'where the documented definitions do not fix a value (x/0 with a scalar operand, sqrt or ^0.5 of a negative, SIGN(0) or SIGN(NaN), AVG/MIN/MAX/MSE/VAR of an all-NaN vector) any outcome, '
                   'including an exception, is accepted; feature/feature division by an exact zero is NaN',
                   "'^' only with the literal exponents 2, 3, 0.5"]
    outside = ['floating-point rounding (x*(1/k) and x/k are equal in the model)', 'feature ^ feature, scalar ^ feature, %, !, >>, <<, prime notation', 'EXP LOG COS SIN TAN values',
               'MEDIAN / ARGMIN / ARGMAX of vectors containing NaN']
    budget = {'quick': 200, 'thorough': 2400}

    def bounds(self, tier):
        q = tier == 'quick'
        return dict(trees='all depth-1 trees over 8 leaves x 6 binary operators, 3 literal powers, %d functions, unary minus (n = 2, with and without assignment, a subset with NaN inputs and n = 3); '
                          'depth-2 trees over the reduced alphabet {a, b, 2, k} x {+,-,*,/,<} x {D, SUM, ABS, I}: %s; random trees of depth <= %d over the full alphabet: %d'
                          % (len(aflib.FUNCS), 'seeded sample of 1500' if q else 'all', 3 if q else 5, 400 if q else 3000),
                    n='2 (3 for series functions and the n=3 subset)', renderings=['minimal parentheses', 'fully parenthesised'])

    def jobs(self, tier, seed):
        q = tier == 'quick'
        rng = random.Random(1234 + seed)
        js = []
        d1 = depth1(LEAVES, aflib.FUNCS, BINOPS)
        for t in d1:
            js.append(dict(kind='expr', tree=tojson(t), n=3 if t[0] == 'fun' and t[1] in aflib.SERIES else 2, nan=False, assign=None, minimal=True))
        for t in d1:
            if any(l == ('name', 'a') for l in aflib.leaves(t)):
                js.append(dict(kind='expr', tree=tojson(t), n=2, nan=True, assign=None, minimal=True))
        for t in d1[::3]:
            js.append(dict(kind='expr', tree=tojson(t), n=2, nan=False, assign=rng.choice(['r', 'a', 'b', 'x', 'y', 'z']), minimal=True))
        for t in d1[1::7]:
            js.append(dict(kind='expr', tree=tojson(t), n=3, nan=False, assign=None, minimal=False))
        for l in LEAVES:      # depth 0: a bare name / literal / external, read and assigned to every kind of target
            js.append(dict(kind='expr', tree=tojson(l), n=2, nan=False, assign=None, minimal=True))
            for tgt in ('r', 'a', 'b', 'x', 'y', 'z'):
                js.append(dict(kind='expr', tree=tojson(l), n=2, nan=False, assign=tgt, minimal=True))
        # operator objects applied directly give the same values
        for op in BINOPS:
            for l, r in ((('name', 'a'), ('name', 'b')), (('name', 'a'), ('ext', 'k')), (('ext', 'k'), ('name', 'a')), (('name', 'a'), ('num', '2'))):
                js.append(dict(kind='direct', tree=tojson(('bin', op, l, r)), n=2, nan=False))
        for f in aflib.FUNCS:
            js.append(dict(kind='direct', tree=tojson(('fun', f, ('name', 'a'))), n=3, nan=False))
        # depth 2, reduced alphabet
        s1 = SMALL_LEAVES + depth1(SMALL_LEAVES, SMALL_FUNCS, ['+', '-', '*', '/', '<'])
        s1 = [t for t in s1 if not (t[0] == 'bin' and t[1] == '^')]
        d2 = []
        for op in ['+', '-', '*', '/', '<']:
            for l in s1:
                for r in s1:
                    if max(aflib.depth(l), aflib.depth(r)) == 1:
                        d2.append(('bin', op, l, r))
        for f in SMALL_FUNCS:
            for l in s1:
                if aflib.depth(l) == 1 and not aflib.is_scalar(l):
                    d2.append(('fun', f, l))
        if q:
            d2 = rng.sample(d2, 1500)
        for t in d2:
            js.append(dict(kind='expr', tree=tojson(t), n=2, nan=False, assign=None, minimal=True))
        # scale probes: long flat expressions (more than ten operators in one expression, i.e. temporaries beyond #9)
        def chain(ops, leaves):
            t = leaves[0]
            for i, op in enumerate(ops):
                t = ('bin', op, t, leaves[(i + 1) % len(leaves)])
            return t
        L4 = [('name', 'a'), ('name', 'b'), ('num', '2'), ('ext', 'k')]
        for ops in (['+'] * 12, ['+', '-', '*'] * 5, ['*', '+'] * 7, ['-'] * 11 + ['<']):
            for asg in (None, 'r', 'a'):
                js.append(dict(kind='expr', tree=tojson(chain(ops, L4)), n=2, nan=False, assign=asg, minimal=True, probe=True))
        js.append(dict(kind='expr', tree=tojson(('fun', 'SUM', chain(['+'] * 11, [('name', 'a'), ('name', 'b')]))), n=2, nan=False, assign=None, minimal=True, probe=True))

        def rchain(ops, leaves):      # right-nested: the left operand's intermediate result waits while the right one is evaluated
            t = leaves[-1]
            for i, op in enumerate(ops):
                t = ('bin', op, leaves[i % len(leaves)], t)
            return t
        for asg in (None, 'r'):
            js.append(dict(kind='expr', tree=tojson(('bin', '+', ('bin', '*', ('name', 'a'), ('num', '2')), chain(['+'] * 9, [('name', 'b'), ('num', '2')]))), n=2, nan=False, assign=asg, minimal=True, probe=True))
            js.append(dict(kind='expr', tree=tojson(rchain(['+', '-', '*'] * 4, L4)), n=2, nan=False, assign=asg, minimal=True, probe=True))
            for f in ('AVG', 'SUM', 'MAX', 'MEDIAN'):     # an aggregate evaluated late in a long expression
                js.append(dict(kind='expr', tree=tojson(('bin', '+', chain(['+'] * 9, [('name', 'a'), ('num', '2')]), ('fun', f, ('name', 'b')))), n=2, nan=False, assign=asg, minimal=True, probe=True))
        # value-kind probes: both operands of an arithmetic operator are truth values (results of comparisons with a literal / external value)
        cmps = [('bin', '>', ('name', 'a'), ('num', '0')), ('bin', '<', ('name', 'b'), ('num', '1')), ('bin', '>', ('name', 'b'), ('ext', 'k')), ('bin', '<', ('name', 'x'), ('num', '2'))]
        for op in ('+', '-', '*'):
            for c1 in cmps:
                for c2 in cmps:
                    js.append(dict(kind='expr', tree=tojson(('bin', op, c1, c2)), n=2, nan=False, assign=None, minimal=True, probe=True))
        for f in ('SUM', 'AVG', 'MAX'):
            js.append(dict(kind='expr', tree=tojson(('fun', f, ('bin', '+', cmps[0], cmps[1]))), n=3, nan=False, assign=None, minimal=True, probe=True))
            js.append(dict(kind='expr', tree=tojson(('bin', '*', ('num', '2'), ('bin', '+', cmps[0], cmps[2]))), n=2, nan=False, assign='r', minimal=True, probe=True))
        # combination probes (round 5): an aggregate of a differentiated feature on short tracks (one leading NaN, odd and even counts of remaining values)
        for n in (3, 4):
            for f in ('MAD', 'AVG', 'SUM', 'STD', 'RMSE', 'VAR', 'MSE', 'MIN', 'MAX'):
                js.append(dict(kind='expr', tree=tojson(('fun', f, ('fun', 'D', ('name', 'a')))), n=n, nan=False, assign=None, minimal=True, probe=True))
        # scale probes: long tracks (aggregates and series functions over 17 / 33 observations, NaN through D{})
        for n in (17, 33):
            for f in aflib.AGGREGATES:
                js.append(dict(kind='expr', tree=tojson(('fun', f, ('name', 'a'))), n=n, nan=False, assign=None, minimal=True, long=True))
                if f not in ('MEDIAN', 'ARGMIN', 'ARGMAX'):
                    js.append(dict(kind='expr', tree=tojson(('fun', f, ('fun', 'D', ('name', 'b')))), n=n, nan=False, assign=None, minimal=True, long=True))
            js.append(dict(kind='expr', tree=tojson(('bin', '-', ('name', 'a'), ('fun', 'AVG', ('fun', 'D', ('name', 'a'))))), n=n, nan=False, assign='r', minimal=True, long=True))
            js.append(dict(kind='expr', tree=tojson(('fun', 'I', ('fun', 'D', ('name', 'a')))), n=n, nan=False, assign=None, minimal=True, long=True))
        cnt = 0
        while cnt < (400 if q else 3000):
            t = random_tree(rng, rng.choice([2, 3] if q else [3, 4, 5]))
            if not fun_arg_ok(t) or aflib.depth(t) < 2:
                continue
            cnt += 1
            js.append(dict(kind='expr', tree=tojson(t), n=2 if rng.random() < 0.7 else 3, nan=rng.random() < 0.15,
                           assign=rng.choice([None, None, 'r', 'a']), minimal=rng.random() < 0.7))
        js.sort(key=lambda j: 0 if (j.get('long') or j.get('probe')) else 1)      # scale probes first (stable): the enumerations below may run into the budget
        return js

    def patches(self, job):
        return std_patches([TRK, UTL, OPS], math=True, ints=True)

    # ------------------------------------------------------------------
    def _setup(self, eng, job, inp):
        n = job['n']
        sym = inp is None

        longn = bool(job.get('long'))

        def val(name, nan=False):
            if longn and name[0] in 'abx' and name[1:].isdigit() and int(name[1:]) not in (1, n - 2):
                i = int(name[1:])       # long-track probe: concrete values except two symbolic entries per vector
                return float(((i * 7 + {'a': 3, 'b': 5, 'x': 1}[name[0]]) % 11) - 4)
            if sym and longn and name[0] in 'abx' and name[1:].isdigit():
                # the two symbolic entries of a long vector stay strictly between two of the fixed values (these are integers): order-dependent
                # aggregates then follow a handful of paths instead of one per rank
                lo = 0.25 if int(name[1:]) == 1 else 2.25
                return eng.real(name, lo, lo + 0.5)
            if sym:
                v = eng.real_or_nan(name, -8, 8) if nan else eng.real(name, -8, 8)
                if core.is_sym(v):     # exact zero or at least 1/1024 in magnitude: keeps every intermediate value far below the 1e300 sentinels of MIN / MAX
                    eng.assume(z3.Or(v.z == 0, v.z >= z3.Q(1, 1024), v.z <= z3.Q(-1, 1024)))
                return v
            v = inp[name]
            return float(v)
        a = [val('a%d' % i, job.get('nan')) for i in range(n)]
        b = [val('b%d' % i) for i in range(n)]
        x = [val('x%d' % i) for i in range(n)]
        k = val('k')
        tr = aflib.make_track(n, xs=x, feats=dict(a=a, b=b))
        return tr, a, b, x, k

    def _env(self, tr, a, b, x, k, n, A):
        return {'a': [A.lift(v) for v in a], 'b': [A.lift(v) for v in b], 'x': [A.lift(v) for v in x],
                'y': [A.lift(float(2 * i)) for i in range(n)], 'z': [A.lift(0.0)] * n,
                'idx': [A.lift(float(i)) for i in range(n)], 't': [A.lift(aflib.TS[i]) for i in range(n)], '$k': A.lift(k)}

    def _direct(self, tr, t, k):
        """the corresponding operator object applied directly (documented API) -> list of values"""
        Operator = sys.modules[OPS].Operator
        if t[0] == 'fun':
            name = t[1]
            if name in Operator.NAMES_DICT_VOID:
                tr.operate(Operator.NAMES_DICT_VOID[name], t[2][1], 'out')
                return tr.getAnalyticalFeature('out')
            v = tr.operate(Operator.NAMES_DICT_NON_VOID[name], t[2][1])
            return [v] * tr.size()
        op, l, r = t[1], t[2], t[3]
        num = lambda u: k if u[0] == 'ext' else float(u[1])
        if l[0] == 'name' and r[0] == 'name':
            tr.operate(Operator.NAMES_DICT_VOID[op], l[1], r[1], 'out')
        elif l[0] == 'name':
            tr.operate(Operator.NAMES_DICT_VOID['s' + op], l[1], num(r), 'out')
        else:
            tr.operate(Operator.NAMES_DICT_VOID['sr' + op], r[1], num(l), 'out')
        return tr.getAnalyticalFeature('out')

    def _run(self, job, eng, inp, ctx=None):
        sym = inp is None
        A = ZAlg() if sym else FAlg()
        n = job['n']
        t = fromjson(job['tree'])
        tr, a, b, x, k = self._setup(eng, job, inp)
        env = self._env(tr, a, b, x, k, n, A)
        obs_before = [tr.getObs(i) for i in range(n)]
        snap = dict(a=list(a), b=list(b), x=list(x), y=tr.getY(), z=tr.getZ(), ts=[tr.getObs(i).timestamp for i in range(n)])
        expr = render(t, job.get('minimal', True))
        assign = job.get('assign')
        full = (assign + '=' + expr) if assign else expr
        exc = None
        got = None
        try:
            if job['kind'] == 'direct':
                got = self._direct(tr, t, k)
            elif any(l[0] == 'ext' for l in aflib.leaves(t)):
                got = tr.operate(full, {'k': k})
            else:
                got = tr[full] if (not assign and any(c in full for c in '+-*/^<>()')) else tr.operate(full)
        except (core._Abort, core._Stop):
            raise
        except core.Unsupported:
            raise
        except (Exception, SystemExit) as e:
            if isinstance(e, TypeError) and ('SReal' in str(e) or 'SInt' in str(e) or 'SBool' in str(e)):
                raise
            exc = e
        want = evaluate_full(t, env, n, A)
        undef = A.undef_seen or any(w is UNDEF for w in want)
        if exc is not None:
            if undef:
                return None, {}, 'undefined by the documented definitions (exception accepted)'
            return "evaluating '%s' raised %s" % (full, type(exc).__name__), {}, None
        if sym:
            ctx.reach()
        # where the result is read
        if job['kind'] == 'direct':
            res = got
        elif assign:
            res = tr.getAnalyticalFeature(assign)
        else:
            res = got
        if not isinstance(res, list) or len(res) != n:
            return "'%s' did not return one value per observation" % full, {}, None
        out = {}
        for i in range(n):
            w = want[i]
            if w is UNDEF:
                continue
            g = res[i]
            if isnan(w) or isnan(g):
                if not (isnan(w) and isnan(g)):
                    return "'%s' at observation %d: got %r, ordinary arithmetic gives %r" % (full, i, 'NaN' if isnan(g) else 'a number', 'NaN' if isnan(w) else 'a number'), out, None
                continue
            if sym:
                gz = core.zreal(g)
                eps = z3.Q(1, 10 ** 9) * (1 + z3.If(w >= 0, w, -w))    # absorbs the rounding of concrete constants such as 1.0/107
                if not ctx.prove(z3.And(gz - w <= eps, w - gz <= eps), "value equals the expression tree evaluated with ordinary arithmetic"):
                    return None, out, 'stop'
            else:
                if abs(float(g) - w) > 1e-9 * max(1.0, abs(w)):
                    return "'%s' at observation %d: got %r, ordinary arithmetic gives %r" % (full, i, float(g), w), out, None
        if not undef:
            out['res'] = list(res)
        # frame: nothing else changes
        if job['kind'] == 'direct':
            return None, out, None
        bad = aflib.table_invariant(tr)
        if bad:
            return "after '%s': %s" % (full, bad), out, None
        names = set(tr.getListAnalyticalFeatures())
        expect = {'a', 'b'} | ({assign} if assign and assign not in ('x', 'y', 'z') else set())
        if names != expect:
            return "after '%s' the track lists %r, expected %r" % (full, sorted(names), sorted(expect)), out, None
        now = [tr.getObs(i) for i in range(tr.size())]
        if len(now) != n or any(p is not q for p, q in zip(now, obs_before)):
            return "'%s' changed the observation list" % full, out, None
        cur = dict(a=tr.getAnalyticalFeature('a'), b=tr.getAnalyticalFeature('b'), x=tr.getX(), y=tr.getY(), z=tr.getZ())
        for name in ('a', 'b', 'x', 'y', 'z'):
            if name == assign:
                continue
            if any(not aflib.same_value(p, q) for p, q in zip(cur[name], snap[name])):
                return "'%s' changed %s as a side effect" % (full, name), out, None
        if any(tr.getObs(i).timestamp is not snap['ts'][i] for i in range(n)):
            return "'%s' changed a timestamp" % full, out, None
        return None, out, None

    def path(self, ctx, job):
        core.set_identity_hash(True)
        try:
            v, out, note = self._run(job, ctx.eng, None, ctx)
        finally:
            core.set_identity_hash(False)
        ctx.note = render(fromjson(job['tree'])) + ((' [' + note + ']') if note else '')
        ctx.reach()
        if out:
            ctx.observe(**out)
        if v:
            import re
            ctx.fail(re.sub(r"'[^']*'", 'the expression', v).split(': got')[0].split(' lists ')[0])

    def concrete(self, job, inp):
        v, out, note = self._run(job, None, inp)
        return dict(violation=v, outputs=out)


CHECK = C02()
