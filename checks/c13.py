"""C13 — tracks and networks written to file are read back unchanged.

Formatting and parsing of numbers are C code: they are replaced by contract stubs (token model).  A symbolic number that
is formatted becomes an opaque token string (private-use code points) linked to a fresh symbol r' with
|r' - r| <= 0.5 * 10^-precision, where the precision is parsed from the format spec the writer ACTUALLY used; the
readers' float() / int() map a token back to its symbol.  The files are really written and really read.  What is
verified is the glue: which value goes to which column, with which precision, separator and time layout, and which
column the reader takes it from."""
import os
import re
import sys
import math
import itertools
import tempfile
import z3
from symx.runner import Check
from symx import core
from symx.core import zreal, zterm

TW = 'tracklib.io.track_writer'
TR = 'tracklib.io.track_reader'
TF = 'tracklib.io.track_format'
OT = 'tracklib.core.obs_time'
NW = 'tracklib.io.network_writer'
NR = 'tracklib.io.network_reader'
TRK = 'tracklib.core.track'

FILL = ''
SCRATCH = '/dev/shm' if os.path.isdir('/dev/shm') else tempfile.gettempdir()


class Tokens:
    def __init__(self):
        self.map = {}

    def new(self, proxy, width=1):
        ch = chr(0xE000 + len(self.map))
        self.map[ch] = proxy
        return ch + FILL * (max(1, width) - 1)

    def lookup(self, s):
        if isinstance(s, str):
            t = s.strip().strip('"')
            if t and t[0] in self.map and all(c == FILL for c in t[1:]):
                return self.map[t[0]]
        return None


TOK = None      # the token table of the running path


def _fmt_real(self, spec):
    if TOK is None:
        return '<sym>'
    m = re.match(r'^\s*[<>^]?\+?(\d*)(?:\.(\d+))?([fFeEgG]?)$', spec or '')
    if spec and m and m.group(3) in ('f', 'F') and m.group(2) is not None:
        prec = int(m.group(2))
        r = core.ENG.fresh_real('fmt')
        half = z3.Q(5, 10 ** (prec + 1))
        core.ENG.assume(z3.And(r - self.z <= half, self.z - r <= half), check=False)
        return TOK.new(core.SReal(r))
    if not spec:
        return TOK.new(self)       # repr / str of a float round-trips exactly
    raise core.Unsupported('format spec %r on a symbolic real' % spec)


def _str_real(self):
    return _fmt_real(self, '')


def _fmt_int(self, spec):
    if TOK is None:
        return '<sym>'
    m = re.match(r'^0?(\d*)d?$', spec or '')
    if m is None:
        raise core.Unsupported('format spec %r on a symbolic integer' % spec)
    return TOK.new(self, int(m.group(1) or 1))


def tok_float(x=0.0):
    if TOK is not None:
        p = TOK.lookup(x)
        if p is not None:
            return core.sym_float(p)
    return core.sym_float(x)


def tok_int(x=0, *a):
    if TOK is not None:
        p = TOK.lookup(x)
        if p is not None:
            return core.sym_int(p)
    return core.sym_int(x, *a)


class TokFloat(float, metaclass=core.LiftMeta):
    _base = float
    _sym = core.SReal
    _conv = staticmethod(tok_float)


class TokInt(int, metaclass=core.LiftMeta):
    _base = int
    _sym = core.SInt
    _conv = staticmethod(tok_int)


SEPS = {'comma': ',', 'semi': ';', 'tab': '\t', 'blank': ' '}
SRIDS = ['ENU', 'GEO', 'ECEF']


def layouts():
    """all admissible assignments of the column indices (E, N, U or -1, T or -1)"""
    out = []
    for hasU in (True, False):
        for hasT in (True, False):
            k = 2 + hasU + hasT
            for perm in itertools.permutations(range(k)):
                e, n = perm[0], perm[1]
                u = perm[2] if hasU else -1
                t = perm[2 + hasU] if hasT else -1
                out.append((e, n, u, t))
    return out


def make_coords(srid, x, y, z):
    from tracklib.core import ENUCoords, GeoCoords, ECEFCoords
    return {'ENU': ENUCoords, 'GEO': GeoCoords, 'ECEF': ECEFCoords}[srid](x, y, z)


def kind_conv(vk):
    import numpy as np
    return {'npfloat': np.float64, 'int': int, 'npint': np.int64, 'npfloat32': np.float32}[vk]


def _py(v):
    """expected value as a plain Python number (the written value may be a numpy scalar)"""
    return v.item() if hasattr(v, 'item') and not core.is_sym(v) else v


class C13(Check):
    id = 'C13'
    title = 'Tracks and networks written to file are read back unchanged'
    functions = ['TrackWriter.writeToFile', 'TrackWriter.__printInOrder', 'TrackReader.readFromFile', 'TrackReader.__readFromCsv', 'ObsTime.__str__', 'ObsTime.readTimestamp', 'ObsTime.__fillMember',
                 'TrackFormat', 'NetworkWriter.writeToCsv', 'NetworkReader.readFromFile', 'Track.toWKT', 'TrackReader.parseWkt']
    stubs = ['token model: format(<symbolic real>, "W.Pf") returns an opaque token linked to a fresh r\' with |r\' - r| <= 0.5*10^-P (P parsed from the spec the writer actually used); str(<symbolic real>) round-trips exactly; '
             'format(<symbolic int>, "0Nd") returns a token of exactly N characters',
             'float / int in track_reader, network_reader, obs_time and track rebound: a token string maps back to its symbol, ordinary text goes to the builtin',
             'files are really written and read (scratch files under %s, removed per path)' % SCRATCH]
    assumptions = ['|coordinate| < 999000 (the reader documents -999999 as its no-data value)', 'timestamps: year 1970..2099, month 1..12, day 1..28, hour, minute, second symbolic integers (well formed)',
                   'column layouts, separators, coordinate systems are enumerated as jobs; coordinate values and timestamp fields are symbolic',
                   'precision demanded: 1e-3 for metric (ENU, ECEF), 1e-8 for geographic coordinates; timestamps equal field by field to the second']
    outside = ["Python's own number formatting and parsing", 'field-width overflow of formatted values', 'encodings', 'files not produced by the writer', 'KML',
               'analytical features columns', 'GPX rte type, several tracks per file', 'network CSV without header line, weight column']
    classes = {'blank_separator_with_time': 'blank separator together with a timestamp column and a time format that contains a blank',
               'gpx_enu_elevation': 'elevation of a track in local (ENU) coordinates written to GPX'}
    budget = {'quick': 150, 'thorough': 900}

    def bounds(self, tier):
        q = tier == 'quick'
        return dict(csv_tracks='all %d column layouts x separators %s x coordinate systems %s, n = %d observations' % (len(layouts()), list(SEPS), SRIDS, 1 if q else 2),
                    gpx='writeToGpx -> readFromFile (trk), ENU and GEO, n = 1..2', wkt='Track.toWKT -> parseWkt, ENU and GEO, n = 2..3',
                    history='GPX export (one file / one file per track) followed by a CSV round trip', network='3 edges (2- and 3-vertex geometries, the three orientations, shared junctions) with symbolic vertex coordinates, separators , and ;')

    def jobs(self, tier, seed):
        q = tier == 'quick'
        js = []
        for srid in SRIDS:
            for sep in SEPS:
                for lay in layouts():
                    if q and srid != 'ENU' and sep in ('tab',):
                        continue
                    js.append(dict(kind='csv', srid=srid, sep=sep, lay=list(lay), n=1 if q else 2))
        for srid in ('ENU', 'GEO'):
            for n in (1, 2):
                js.append(dict(kind='gpx', srid=srid, n=n))
            for n in (2, 3):
                js.append(dict(kind='wkt', srid=srid, n=n))
        for sep in ('comma', 'semi'):
            js.append(dict(kind='net', sep=sep, n=0))
        # scale probes: long tracks (fixed observations except two symbolic ones), collections of several tracks in GPX (one file / one file per track)
        for n in ([70] if q else [63, 64, 65, 129, 300]):
            for srid in ('ENU', 'GEO'):
                for lay in ([0, 1, 2, 3], [1, 2, 3, 0], [0, 1, 2, -1], [3, 0, 1, 2]):
                    js.append(dict(kind='csv', srid=srid, sep='comma' if lay[0] == 0 else 'semi', lay=lay, n=n, long=True))
        for srid in ('GEO',) if q else ('GEO', 'ENU'):
            for many in ((3,) if q else (2, 3, 5)):
                for one in (True, False):
                    js.append(dict(kind='gpx', srid=srid, n=2, many=many, onefile=one))
            js.append(dict(kind='gpx', srid=srid, n=70 if q else 300, long=True))
        for one in (True, False):
            js.append(dict(kind='csv', srid='GEO', sep='comma', lay=[0, 1, 2, 3], n=1, after_gpx=one))
        # leftover-state probe: a GPX export refused with an exception (wrong extension / missing directory), then a CSV round trip in the same process
        for why in ('ext', 'dir'):
            for srid in ('ENU', 'GEO'):
                js.append(dict(kind='csv', srid=srid, sep='comma', lay=[0, 1, 2, 3], n=1, after_refused=why))
        # round-5 history: a CSV import rejected by a selector (own time format), then a CSV round trip in the same process
        for srid in ('ENU', 'GEO'):
            js.append(dict(kind='csv', srid=srid, sep='comma', lay=[0, 1, 2, 3], n=1, after_rejected_read=True))
        # value-kind probes: coordinates held as numpy scalars / Python ints (WKT text, network geometries)
        for vk in ('npfloat', 'int', 'npint'):
            for srid in ('ENU', 'GEO'):
                js.append(dict(kind='wkt', srid=srid, n=2, vk=vk))
            js.append(dict(kind='net', sep='comma', n=0, vk=vk))    # a history: GPX export (one file / one file per track), then CSV
        return js

    def patches(self, job):
        p = []
        for mod in (TR, OT, TRK, NR):
            if mod in sys.modules:
                p.append((mod, 'float', TokFloat))
                p.append((mod, 'int', TokInt))
        if job['kind'] == 'net':
            from symx.lifts import std_patches
            p += std_patches(['tracklib.core.obs_coords'], math=True, ints=False)
        return p

    # ------------------------------------------------------------------
    def _inputs(self, eng, inp, job):
        n = job['n']
        sym = inp is None
        lim = 180 if job['srid'] == 'GEO' else 999000
        g = (lambda nm, lo, hi: eng.real(nm, lo, hi)) if sym else (lambda nm, lo, hi: float(inp[nm]))
        gi = (lambda nm, lo, hi: eng.int(nm, lo, hi)) if sym else (lambda nm, lo, hi: int(inp[nm]))
        obs = []
        if job.get('vk'):
            conv = kind_conv(job['vk'])
            isint = job['vk'] in ('int', 'npint')
            for i in range(n):
                obs.append(((conv(12 + i if isint else 12.5 + i), conv(3 - 7 * i if isint else 3.25 - 7.5 * i), conv(1)), (2001, 2, 3 + i, 4, 5, 6)))
            return obs
        for i in range(n):
            if job.get('long') and i not in (1, n - 2):
                geo = job['srid'] == 'GEO'
                obs.append(((((i * 37) % 300 - 150) + 0.125 * (i % 8), ((i * 17) % 160 - 80) + 0.0625 * (i % 16), (i * 13) % 500 - 100 + 0.5 * (i % 2)) if geo else
                            (((i * 3701) % 200000 - 100000) + 0.125 * (i % 8), ((i * 1709) % 160000 - 80000) + 0.0625 * (i % 16), (i * 13) % 500 - 100 + 0.5 * (i % 2)),
                            (2000 + i % 50, 1 + i % 12, 1 + i % 28, i % 24, (i * 7) % 60, (i * 11) % 60)))
                continue
            xyz = (g('x%d' % i, -lim, lim), g('y%d' % i, -90 if job['srid'] == 'GEO' else -lim, 90 if job['srid'] == 'GEO' else lim), g('z%d' % i, -9000, 9000))
            t = (gi('Y%d' % i, 1970, 2099), gi('M%d' % i, 1, 12), gi('D%d' % i, 1, 28), gi('h%d' % i, 0, 23), gi('m%d' % i, 0, 59), gi('s%d' % i, 0, 59))
            obs.append((xyz, t))
        return obs

    def _roundtrip(self, job, obs):
        if job['kind'] != 'csv':
            return self._roundtrip_other(job, obs)
        from tracklib.core import Track, Obs, ObsTime
        tw, trd, tf = sys.modules[TW], sys.modules[TR], sys.modules[TF]
        e, n, u, t = job['lay']
        sep = SEPS[job['sep']]
        tr = Track([Obs(make_coords(job['srid'], *xyz), ObsTime(*ts)) for xyz, ts in obs])
        if 'after_refused' in job:
            other = Track([Obs(make_coords(job['srid'], 1.0, 2.0, 3.0), ObsTime(2001, 2, 3, 4, 5, 6))], track_id=7)
            try:
                if job['after_refused'] == 'ext':
                    tw.TrackWriter.writeToGpx(other, os.path.join(SCRATCH, 'verif-c13-refused.txt'))
                else:
                    tw.TrackWriter.writeToGpx(other, os.path.join(SCRATCH, 'verif-c13-no-such-directory'), oneFile=False)
            except Exception:
                pass          # the export is refused (documented IOPathError); its only legitimate effect is the exception
            finally:
                try:
                    os.remove(os.path.join(SCRATCH, 'verif-c13-refused.txt'))
                except OSError:
                    pass
        if 'after_rejected_read' in job:
            import tracklib as _tl
            from tracklib.algo.selection import MODE_INSIDE, TYPE_SELECT
            p = os.path.join(SCRATCH, 'verif-c13-rejected-%d.csv' % os.getpid())
            try:
                with open(p, 'w') as f:
                    f.write('2020-05-04 10:00:00,100.000,200.000\n2020-05-04 10:00:05,101.000,201.000\n')
                sel = _tl.Selector([_tl.Constraint(shape=_tl.Rectangle(_tl.ENUCoords(-10, -10), _tl.ENUCoords(10, 10)), mode=MODE_INSIDE, type=TYPE_SELECT)])
                fmt = _tl.TrackFormat({'ext': 'CSV', 'id_T': 0, 'id_E': 1, 'id_N': 2, 'id_U': -1, 'separator': ',', 'header': 0, 'srid': 'ENU',
                                       'time_fmt': '4Y-2M-2D 2h:2m:2s', 'selector': sel})
                try:
                    trd.TrackReader.readFromFile(p, fmt)      # rejected by the selector: returns None; its only legitimate effect
                except Exception:
                    pass
            finally:
                try:
                    os.remove(p)
                except OSError:
                    pass
        if 'after_gpx' in job:
            import shutil
            d = tempfile.mkdtemp(prefix='verif-c13-', dir=SCRATCH)
            try:
                other = Track([Obs(make_coords(job['srid'], 1.0, 2.0, 3.0), ObsTime(2001, 2, 3, 4, 5, 6))], track_id=7)
                if job['after_gpx']:
                    tw.TrackWriter.writeToGpx(other, os.path.join(d, 'one.gpx'))
                else:
                    tw.TrackWriter.writeToGpx(other, d, oneFile=False)
            finally:
                shutil.rmtree(d, ignore_errors=True)
        fd, path = tempfile.mkstemp(suffix='.csv', prefix='verif-c13-', dir=SCRATCH)
        os.close(fd)
        try:
            tw.TrackWriter.writeToFile(tr, path, e, n, u, t, sep, 0)
            fmt = tf.TrackFormat({'ext': 'CSV', 'id_E': e, 'id_N': n, 'id_U': u, 'id_T': t, 'separator': sep, 'header': 0, 'srid': job['srid']})
            back = trd.TrackReader.readFromFile(path, fmt)
        finally:
            try:
                os.remove(path)
            except OSError:
                pass
        return back

    NET = [('e1', 'a', 'b', 0, ['a', 'b']), ('e2', 'b', 'c', 1, ['b', 'm', 'c']), ('e3', 'a', 'c', -1, ['a', 'c'])]

    def _inputs_other(self, eng, inp, job):
        sym = inp is None
        g = (lambda nm, lo, hi: eng.real(nm, lo, hi)) if sym else (lambda nm, lo, hi: float(inp[nm]))
        if job['kind'] == 'net' and job.get('vk'):
            conv = kind_conv(job['vk'])
            isint = job['vk'] in ('int', 'npint')
            base = {'a': (0, 0), 'b': (120, 35), 'c': (40, -260), 'm': (77, -101)}
            return {v: (conv(x if isint else x + 0.125), conv(y if isint else y - 0.375)) for v, (x, y) in base.items()}
        if job['kind'] == 'net':
            return {v: (g('x_' + v, -999000, 999000), g('y_' + v, -999000, 999000)) for v in ('a', 'b', 'c', 'm')}
        return None

    def _roundtrip_other(self, job, obs):
        """returns a list of comparisons: (got, want, tolerance or None for exact, what) and a list of structural problems"""
        from tracklib.core import Track, Obs, ObsTime, ENUCoords
        comps, bad = [], []
        kind = job['kind']
        if kind == 'wkt':
            trd = sys.modules[TR]
            tr = Track([Obs(make_coords(job['srid'], *xyz), ObsTime()) for xyz, ts in obs])
            back = trd.TrackReader.parseWkt(tr.toWKT())
            if back.size() != len(obs):
                bad.append('the WKT text parsed back does not have the same number of vertices')
                return comps, bad
            for i, (xyz, ts) in enumerate(obs):
                o = back.getObs(i)
                comps.append((o.position.getX(), _py(xyz[0]), None, 'WKT: the first planimetric coordinate is parsed back unchanged'))
                comps.append((o.position.getY(), _py(xyz[1]), None, 'WKT: the second planimetric coordinate is parsed back unchanged'))
            return comps, bad
        if kind == 'gpx' and job.get('many'):
            # a collection of several tracks; the symbolic observations are those of the track at index 1
            import shutil
            from tracklib.core import TrackCollection
            tw, trd, tf = sys.modules[TW], sys.modules[TR], sys.modules[TF]
            k = job['many']
            allobs = []
            for j in range(k):
                allobs.append(list(obs) if j == 1 else [((1.5 + j + 0.25 * i, 2.25 - j, 10.0 * j + i), (2001 + j, 2, 3 + i, 4, 5, 6 + i)) for i in range(len(obs))])
            coll = TrackCollection([Track([Obs(make_coords(job['srid'], *xyz), ObsTime(*ts)) for xyz, ts in ob], track_id=100 + j) for j, ob in enumerate(allobs)])
            d = tempfile.mkdtemp(prefix='verif-c13-', dir=SCRATCH)
            save = ObsTime.getReadFormat()
            fmt = tf.TrackFormat({'ext': 'GPX', 'srid': job['srid'], 'type': 'trk'})
            try:
                if job['onefile']:
                    tw.TrackWriter.writeToGpx(coll, os.path.join(d, 'all.gpx'))
                else:
                    tw.TrackWriter.writeToGpx(coll, d, oneFile=False)
                ObsTime.setReadFormat('4Y-2M-2DT2h:2m:2s')
                if job['onefile']:
                    got = trd.TrackReader.readFromFile(os.path.join(d, 'all.gpx'), fmt)
                    backs = [got[j] for j in range(len(got))] if got is not None else []
                else:
                    backs = []
                    for j in range(k):
                        got = trd.TrackReader.readFromFile(os.path.join(d, '%d.gpx' % (100 + j)), fmt)
                        if got is None or len(got) != 1:
                            bad.append('a per-track GPX file read back does not contain exactly one track')
                            return comps, bad
                        backs.append(got[0])
            finally:
                ObsTime.setReadFormat(save)
                shutil.rmtree(d, ignore_errors=True)
            if len(backs) != k or any(b.size() != len(obs) for b in backs):
                bad.append('the GPX collection read back does not have the same tracks with the same numbers of observations')
                return comps, bad
            for j in range(k):
                for i, (xyz, ts) in enumerate(allobs[j]):
                    o = backs[j].getObs(i)
                    for c, gv in enumerate((o.position.getX(), o.position.getY(), o.position.getZ())):
                        comps.append((gv, xyz[c], 1e-8, 'GPX collection: a coordinate is read back equal to the written precision') + (('gpx_enu_elevation',) if (c == 2 and job['srid'] == 'ENU') else ()))
                    rt = o.timestamp
                    for a, b in zip((rt.year, rt.month, rt.day, rt.hour, rt.min, rt.sec), ts):
                        comps.append((a, b, None, 'GPX collection: the timestamp is read back identical to the second'))
            return comps, bad
        if kind == 'gpx':
            tw, trd, tf = sys.modules[TW], sys.modules[TR], sys.modules[TF]
            tr = Track([Obs(make_coords(job['srid'], *xyz), ObsTime(*ts)) for xyz, ts in obs])
            fd, path = tempfile.mkstemp(suffix='.gpx', prefix='verif-c13-', dir=SCRATCH)
            os.close(fd)
            save = ObsTime.getReadFormat()
            try:
                tw.TrackWriter.writeToGpx(tr, path)
                ObsTime.setReadFormat('4Y-2M-2DT2h:2m:2s')        # the matching read format of the GPX writer's time layout
                coll = trd.TrackReader.readFromFile(path, tf.TrackFormat({'ext': 'GPX', 'srid': job['srid'], 'type': 'trk'}))
            finally:
                ObsTime.setReadFormat(save)
                try:
                    os.remove(path)
                except OSError:
                    pass
            if coll is None or len(coll) != 1 or coll[0].size() != len(obs):
                bad.append('the GPX file read back does not contain one track with the same number of observations')
                return comps, bad
            tol = 1e-8
            for i, (xyz, ts) in enumerate(obs):
                o = coll[0].getObs(i)
                for k, (gv, nm) in enumerate(((o.position.getX(), 'first'), (o.position.getY(), 'second'), (o.position.getZ(), 'third'))):
                    comps.append((gv, xyz[k], tol, 'GPX: the %s coordinate is read back equal to the written precision' % nm)
                                 + (('gpx_enu_elevation',) if (k == 2 and job['srid'] == 'ENU') else ()))
                rt = o.timestamp
                for a, b in zip((rt.year, rt.month, rt.day, rt.hour, rt.min, rt.sec), ts):
                    comps.append((a, b, None, 'GPX: the timestamp is read back identical to the second'))
            return comps, bad
        if kind == 'net':
            from tracklib.core.network import Network, Node, Edge
            nw, nr = sys.modules[NW], sys.modules[NR]
            nf = sys.modules['tracklib.io.network_format']
            V = obs
            net = Network()
            for eid, a, b, ori, verts in self.NET:
                g = Track([Obs(ENUCoords(V[v][0], V[v][1], 0.0), ObsTime()) for v in verts])
                e = Edge(eid, g)
                e.orientation = ori
                e.weight = 1.0
                net.addEdge(e, Node(a, g.getFirstObs().position), Node(b, g.getLastObs().position))
            fd, path = tempfile.mkstemp(suffix='.csv', prefix='verif-c13-', dir=SCRATCH)
            os.close(fd)
            sep = SEPS[job['sep']]
            try:
                nw.NetworkWriter.writeToCsv(net, path, separator=sep, h=1)
                fmt = nf.NetworkFormat({'pos_edge_id': 0, 'pos_source': 1, 'pos_target': 2, 'pos_direction': 3, 'pos_wkt': 4, 'separator': sep, 'header': 1, 'srid': 'ENU',
                                        'doublequote': True, 'encoding': 'utf-8'})
                back = nr.NetworkReader.readFromFile(path, fmt, verbose=False)
            finally:
                try:
                    os.remove(path)
                except OSError:
                    pass
            if sorted(back.EDGES) != sorted(e[0] for e in self.NET):
                bad.append('the network read back does not have the same edges')
                return comps, bad
            if sorted(str(k) for k in back.NODES) != ['a', 'b', 'c']:
                bad.append('the network read back does not have the same nodes')
                return comps, bad
            for eid, a, b, ori, verts in self.NET:
                e = back.EDGES[eid]
                if str(e.source.id) != a or str(e.target.id) != b:
                    bad.append('an edge read back does not have the same end nodes')
                    return comps, bad
                if e.orientation != ori:
                    bad.append('an edge read back does not have the same orientation')
                    return comps, bad
                if e.geom.size() != len(verts):
                    bad.append('an edge geometry read back does not have the same number of vertices')
                    return comps, bad
                for k, v in enumerate(verts):
                    comps.append((e.geom.getObs(k).position.getX(), _py(V[v][0]), None, 'network: an edge vertex x is read back unchanged'))
                    comps.append((e.geom.getObs(k).position.getY(), _py(V[v][1]), None, 'network: an edge vertex y is read back unchanged'))
            return comps, bad
        raise ValueError(kind)

    def path(self, ctx, job):
        global TOK
        eng = ctx.eng
        kind = job['kind']
        obs = self._inputs(eng, None, job) if kind != 'net' else self._inputs_other(eng, None, job)
        if kind == 'csv':
            e, n, u, t = job['lay']
            known_blank = job['sep'] == 'blank' and t != -1
        else:
            known_blank = False
        cls = {'blank_separator_with_time': z3.BoolVal(known_blank)}
        TOK = Tokens()
        from tracklib.core import ObsTime as _OT
        fmts = (_OT.getPrintFormat(), _OT.getReadFormat())
        if kind == 'net' and not job.get('vk'):
            # values that stress the text form (the concolic fallback tries them when a path cannot be followed symbolically)
            xa, ya = obs['a'][0].z, obs['m'][1].z
            ctx.hints = [xa == z3.Q(1, 32768), ya == z3.Q(-1, 65536), z3.And(xa == z3.Q(1, 32768), ya == z3.Q(-3, 65536))]
        if kind == 'wkt' and not job.get('vk'):
            ctx.hints = [zreal(obs[0][0][0]) == z3.Q(1, 32768), zreal(obs[-1][0][1]) == z3.Q(-1, 65536)]
        saved = (core.SReal.__format__, core.SReal.__str__, core.SInt.__format__, core.SInt.__str__)
        core.SReal.__format__, core.SReal.__str__ = _fmt_real, _str_real
        core.SInt.__format__, core.SInt.__str__ = _fmt_int, (lambda self: _fmt_int(self, ''))
        try:
            back = self._roundtrip(job, obs)
        except (core._Abort, core._Stop, core.Unsupported):
            raise
        except (Exception, SystemExit) as ex:
            if isinstance(ex, TypeError) and ('SReal' in str(ex) or 'SInt' in str(ex)):
                raise
            ctx.reach()
            ctx.fail('writing then reading raised %s' % type(ex).__name__, classes=cls)
            return
        finally:
            core.SReal.__format__, core.SReal.__str__, core.SInt.__format__, core.SInt.__str__ = saved
            TOK = None
            _OT.setPrintFormat(fmts[0])
            _OT.setReadFormat(fmts[1])
        ctx.reach()
        if kind != 'csv':
            comps, bad = back
            if bad:
                ctx.fail(bad[0], classes=cls)
                return
            for comp in comps:
                got, want, tol, what = comp[:4]
                kcls = dict(cls)
                if len(comp) > 4:
                    kcls[comp[4]] = z3.BoolVal(True)
                if not core.is_sym(got) and not isinstance(got, (int, float)):
                    ctx.fail('a value read back is not a number', classes=kcls)
                    return
                d = zreal(got) - zreal(want)
                c = (d == 0) if tol is None else z3.And(d <= core.zreal(tol), d >= -core.zreal(tol))
                if not ctx.prove(c, what, classes=kcls):
                    return
            return
        if back is None or back.size() != len(obs):
            ctx.fail('the track read back does not have the same number of observations', classes=cls)
            return
        tol = z3.Q(1, 10 ** 8) if job['srid'] == 'GEO' else z3.Q(1, 1000)
        for i, (xyz, ts) in enumerate(obs):
            o = back.getObs(i)
            got = [o.position.getX(), o.position.getY(), o.position.getZ()]
            names = ['first', 'second', 'third']
            for k in range(3 if u != -1 else 2):
                if not core.is_sym(got[k]) and not isinstance(got[k], (int, float)):
                    ctx.fail('a coordinate read back is not a number', classes=cls)
                    return
                d = zreal(got[k]) - zreal(xyz[k])
                if not ctx.prove(z3.And(d <= tol, d >= -tol), 'the %s coordinate is read back equal to the written precision' % names[k], classes=cls):
                    return
            if t != -1:
                rt = o.timestamp
                fields = [rt.year, rt.month, rt.day, rt.hour, rt.min, rt.sec]
                if not ctx.prove(z3.And([zterm(a) == zterm(b) for a, b in zip(fields, ts)]), 'the timestamp is read back identical to the second', classes=cls):
                    return

    def concrete(self, job, inp):
        from tracklib.core import ObsTime as _OT
        fmts = (_OT.getPrintFormat(), _OT.getReadFormat())
        try:
            return self._concrete(job, inp)
        finally:
            _OT.setPrintFormat(fmts[0])
            _OT.setReadFormat(fmts[1])

    def _concrete(self, job, inp):
        kind = job['kind']
        obs = self._inputs(None, inp, job) if kind != 'net' else self._inputs_other(None, inp, job)
        if kind != 'csv':
            desc = '%s %s, values %r' % (kind, job.get('srid', job.get('sep')), obs)
            try:
                comps, bad = self._roundtrip(job, obs)
            except (Exception, SystemExit) as ex:
                return dict(violation='%s: %s: %s' % (desc, type(ex).__name__, ex))
            if bad:
                return dict(violation='%s: %s' % (desc, bad[0]))
            for comp in comps:
                got, want, tol, what = comp[:4]
                if not isinstance(got, (int, float)) or abs(got - want) > (0 if tol is None else tol * (1 + 1e-9)):
                    return dict(violation='%s: %s: read back %r, written %r' % (desc, what, got, want))
            return dict(violation=None, outputs={})
        e, n, u, t = job['lay']
        desc = 'CSV %s, separator %r, columns E=%d N=%d U=%d T=%d, observations %r' % (job['srid'], SEPS[job['sep']], e, n, u, t, obs)
        try:
            back = self._roundtrip(job, obs)
        except (Exception, SystemExit) as ex:
            return dict(violation='%s: %s: %s' % (desc, type(ex).__name__, ex))
        if back is None or back.size() != len(obs):
            return dict(violation='%s: %r observations read back' % (desc, None if back is None else back.size()))
        tol = 1e-8 if job['srid'] == 'GEO' else 1e-3
        for i, (xyz, ts) in enumerate(obs):
            o = back.getObs(i)
            got = [o.position.getX(), o.position.getY(), o.position.getZ()]
            for k in range(3 if u != -1 else 2):
                if abs(got[k] - xyz[k]) > tol * (1 + 1e-9):
                    return dict(violation='%s: coordinate %d of observation %d read back as %r' % (desc, k, i, got[k]))
            if t != -1:
                rt = o.timestamp
                if (rt.year, rt.month, rt.day, rt.hour, rt.min, rt.sec) != tuple(ts):
                    return dict(violation='%s: timestamp of observation %d read back as %s' % (desc, i, rt))
        return dict(violation=None, outputs={})


CHECK = C13()
