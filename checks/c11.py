"""C11 — splitting on a marker partitions the track; markers reflect the thresholds."""
import z3
from symx.runner import Check
from symx import core
from symx.core import zreal, zterm

SEG = 'tracklib.algo.segmentation'


def make_track(n, eng=None, feats=None):
    from tracklib.core import Track, Obs, ENUCoords, ObsTime
    tr = Track([Obs(ENUCoords(float(i), float(2 * i), 0.0), ObsTime.readUnixTime(10.0 * i)) for i in range(n)])
    for name, vals in (feats or {}).items():
        tr.createAnalyticalFeature(name, list(vals))
    return tr


def check_partition(track, obs_before, marked, coll, m_vals):
    """concrete oracle shared by the symbolic harness (per path) and the replay"""
    pieces = coll.getTracks() if hasattr(coll, 'getTracks') else list(coll)
    n = len(obs_before)
    if [track.getObs(i) for i in range(track.size())] != obs_before or any(a is not b for a, b in zip([track.getObs(i) for i in range(track.size())], obs_before)):
        return 'the source track was modified by split'
    if not any(marked):
        return None if len(pieces) == 0 else 'no marked observation but %d piece(s) returned' % len(pieces)
    cat = []
    for p in pieces:
        cat += [p.getObs(i) for i in range(p.size())]
    if len(cat) != n or any(a is not b for a, b in zip(cat, obs_before)):
        idx = [next((k for k, o in enumerate(obs_before) if o is c), -1) for c in cat]
        return 'pieces do not contain every observation exactly once in order: indices %r for n=%d' % (idx, n)
    pos = 0
    for k, p in enumerate(pieces):
        pos += p.size()
        if k < len(pieces) - 1:
            if p.size() == 0 or not marked[pos - 1]:
                return 'piece %d does not end at a marked observation' % k
        if 'm' not in p.getListAnalyticalFeatures():
            return 'feature table not carried over to piece %d' % k
    return None


def check_alias(track, obs_before, uid_before, coll):
    """the pieces are new tracks: splitting neither renames nor hands out the input track, and editing a piece leaves the input alone"""
    n = len(obs_before)
    pieces = coll.getTracks()
    if any(p is track for p in pieces):
        return 'a piece returned by split is the input track object itself'
    if track.uid != uid_before:
        return 'split renamed the input track'
    if pieces and pieces[0].size() > 0:
        pieces[0].removeObs(0)
    if track.size() != n or any(track.getObs(i) is not obs_before[i] for i in range(n)):
        return 'editing a piece returned by split changed the input track'
    return None


class C11(Check):
    id = 'C11'
    crosshair = ['c11_split_partitions']      # thorough tier: the same property as a PEP-316 contract analysed by CrossHair (xh/contracts.py)
    title = 'Splitting on a marker partitions the track; markers reflect the thresholds'
    functions = ['segmentation.segmentation', 'segmentation.split', 'Track.extract', 'Track.getObsAnalyticalFeature', 'Track.setObsAnalyticalFeature']
    stubs = ['none (isnan is tracklib\'s own x != x and runs on the proxies)']
    assumptions = ['marker values are the exact 0/1 the segmentation writes (symbolic Int or Real constrained to {0,1})',
                   'one threshold per tested feature (documented calling convention)']
    outside = ['limit > 0 filtering', 'split by a list of indices', 'track sizes beyond the bound']
    budget = {'quick': 120, 'thorough': 1500}

    def bounds(self, tier):
        return dict(split='all marker vectors (one path per vector) for n = 1..%d, markers as Int and as Real' % (9 if tier == 'quick' else 13),
                    segmentation='n <= %d observations, 1..3 tested features, values real-or-NaN, thresholds symbolic reals, AND / OR; '
                                 'including a second run into the same output feature with other thresholds' % (2 if tier == 'quick' else 3))

    def jobs(self, tier, seed):
        js = []
        nmax = 9 if tier == 'quick' else 13
        for n in range(1, nmax + 1):
            for typ in ('int', 'real'):
                if typ == 'real' and n > nmax - 2:
                    continue
                k = max(0, n - 6)    # the first k markers are fixed per job so that large n is spread over the cores
                for pre in range(2 ** k):
                    js.append(dict(kind='split', n=n, typ=typ, prefix=[(pre >> b) & 1 for b in range(k)]))
        nseg = 2 if tier == 'quick' else 3
        for n in range(1, nseg + 1):
            for k in (1, 2, 3):
                if n * k > 6:
                    continue
                for mode in (1, 2):
                    js.append(dict(kind='seg', n=n, k=k, mode=mode, twice=False))
                    if k == 2:       # the same feature tested twice with two thresholds (a band test in AND mode)
                        js.append(dict(kind='seg', n=n, k=k, mode=mode, twice=False, dup=True))
                    if n * k <= 3:
                        js.append(dict(kind='seg', n=n, k=k, mode=mode, twice=True))
        return js

    def path(self, ctx, job):
        import sys
        seg = sys.modules[SEG]
        eng = ctx.eng
        if job['kind'] == 'split':
            n = job['n']
            ms = []
            for i in range(n):
                if i < len(job['prefix']):
                    ms.append(job['prefix'][i] if job['typ'] == 'int' else float(job['prefix'][i]))
                elif job['typ'] == 'int':
                    ms.append(eng.int('m%d' % i, 0, 1))
                else:
                    v = eng.real('m%d' % i, 0, 1)
                    eng.assume(z3.Or(v.z == 0, v.z == 1))
                    ms.append(v)
            tr = make_track(n, feats={'m': ms})
            before = [tr.getObs(i) for i in range(n)]
            uid0 = tr.uid
            try:
                coll = seg.split(tr, 'm')
            except Exception as e:
                ctx.fail('split raised %s' % type(e).__name__)
                return
            marked = [bool(m == 1) for m in ms]      # already decided on this path: no new fork
            ctx.observe(sizes=[t.size() for t in coll.getTracks()])
            ctx.reach()
            v = check_partition(tr, before, marked, coll, ms) or check_alias(tr, before, uid0, coll)
            ctx.note = 'marked=%r' % (marked,)
            if v:
                ctx.fail(v.split(':')[0])
        else:
            n, k, mode = job['n'], job['k'], job['mode']
            vals = [[eng.real_or_nan('v%d_%d' % (f, i), -100, 100) for i in range(n)] for f in range(k)]
            rounds = [[eng.real('thr%d' % f, -100, 100) for f in range(k)]]
            if job['twice']:
                rounds.insert(0, [eng.real('thr0_%d' % f, -100, 100) for f in range(k)])
            names = ['f%d' % f for f in range(k)]
            if job.get('dup'):
                names = ['f0'] * k
                vals = [vals[0]] * k
            tr = make_track(n, feats={names[f]: vals[f] for f in range(k)})
            before = [tr.getObs(i) for i in range(n)]
            for thr in rounds:
                try:
                    seg.segmentation(tr, names if k > 1 else names[0], 'out', thr if k > 1 else thr[0], mode)
                except Exception as e:
                    ctx.fail('segmentation raised %s' % type(e).__name__)
                    return
            thr = rounds[-1]
            out = [tr.getObsAnalyticalFeature('out', i) for i in range(n)]
            ctx.observe(out=out)
            ctx.reach()
            for i in range(n):
                if not (isinstance(out[i], int) and out[i] in (0, 1)):
                    ctx.fail('marker is not 0/1')
                    return
                ex = [zreal(vals[f][i]) > thr[f].z for f in range(k) if not (isinstance(vals[f][i], float) and vals[f][i] != vals[f][i])]
                spec = z3.Or(ex) if mode == 1 else z3.And(ex)     # Or([]) = False, And([]) = True
                if not ex:
                    spec = z3.BoolVal(mode != 1)
                if not ctx.prove(spec if out[i] == 1 else z3.Not(spec),
                                 'marker is 1 exactly where the tested features exceed their thresholds (%s mode%s)' % ('AND' if mode == 1 else 'OR', ', second run' if job['twice'] else '')):
                    return
            for f in range(k):
                got = [tr.getObsAnalyticalFeature(names[f], i) for i in range(n)]
                if any(g is not v for g, v in zip(got, vals[f])):
                    ctx.fail('segmentation modified a tested feature')
                    return

    def concrete(self, job, inp):
        import sys, math
        seg = sys.modules[SEG]
        if job['kind'] == 'split':
            n = job['n']
            ms = []
            for i in range(n):
                v = job['prefix'][i] if i < len(job['prefix']) else inp['m%d' % i]
                ms.append(int(v) if job['typ'] == 'int' else float(v))
            tr = make_track(n, feats={'m': ms})
            before = [tr.getObs(i) for i in range(n)]
            uid0 = tr.uid
            try:
                coll = seg.split(tr, 'm')
            except Exception as e:
                return dict(violation='split raised %s: %s (markers %r)' % (type(e).__name__, e, ms))
            sizes = [t.size() for t in coll.getTracks()]
            v = check_partition(tr, before, [m == 1 for m in ms], coll, ms) or check_alias(tr, before, uid0, coll)
            return dict(violation=(v + ' (markers %r)' % ms) if v else None, outputs=dict(sizes=sizes))
        n, k, mode = job['n'], job['k'], job['mode']
        vals = [[float(inp['v%d_%d' % (f, i)]) for i in range(n)] for f in range(k)]
        rounds = [[float(inp['thr%d' % f]) for f in range(k)]]
        if job['twice']:
            rounds.insert(0, [float(inp['thr0_%d' % f]) for f in range(k)])
        names = ['f%d' % f for f in range(k)]
        if job.get('dup'):
            names = ['f0'] * k
            vals = [vals[0]] * k
        tr = make_track(n, feats={names[f]: vals[f] for f in range(k)})
        for thr in rounds:
            try:
                seg.segmentation(tr, names if k > 1 else names[0], 'out', thr if k > 1 else thr[0], mode)
            except Exception as e:
                return dict(violation='segmentation raised %s: %s' % (type(e).__name__, e))
        thr = rounds[-1]
        out = [tr.getObsAnalyticalFeature('out', i) for i in range(n)]
        viol = None
        for i in range(n):
            ex = [vals[f][i] > thr[f] for f in range(k) if not math.isnan(vals[f][i])]
            want = (any(ex) if mode == 1 else all(ex))
            if out[i] != (1 if want else 0):
                viol = 'marker[%d] = %r, expected %d (values %r, thresholds %r, mode %s)' % (i, out[i], want, [vals[f][i] for f in range(k)], thr, 'AND' if mode == 1 else 'OR')
        return dict(violation=viol, outputs=dict(out=out))


CHECK = C11()
