"""C12 — optimal partitioning returns a global optimum for the requested direction."""
import sys
import itertools
import z3
import numpy as np
from symx.runner import Check
from symx import core
from symx.lifts import SymNumpy
from symx.core import zreal

SEG = 'tracklib.algo.segmentation'
SIM = 'tracklib.algo.simplification'


def all_partitions(N):
    """all strictly increasing index lists from 0 to N-1"""
    inner = list(range(1, N - 1))
    out = []
    for r in range(len(inner) + 1):
        for c in itertools.combinations(inner, r):
            out.append([0] + list(c) + ([N - 1] if N > 1 else []))
    return out


def cost_of(part, c):
    terms = [c[(a, b)] for a, b in zip(part, part[1:])]
    return terms


class C12(Check):
    id = 'C12'
    title = 'Optimal partitioning returns a global optimum for the requested direction'
    functions = ['segmentation.optimalPartition', 'segmentation.backward/backtracking', 'segmentation.optimalSegmentation', 'simplification.optimalSimplification']
    stubs = ['segmentation.np rebound so that np.zeros tables are object arrays holding z3 terms', 'progressbar not used (verbose=False)']
    assumptions = ['cost entries are reals in [-100,100] (costs or rewards of either sign) (symmetric matrix; only the upper triangle among the N candidates is read)',
                   'N = shape-1 candidates as the implementation defines them; N >= 2']
    outside = ['N > 6 with every entry symbolic; N > 12', 'the documented meaning of the individual cost functions (minimum bounding rectangles: numpy / trigonometry)',
               'N = 1 (single candidate: degenerate)', 'stop detection pipelines beyond their call of optimalPartition']
    budget = {'quick': 120, 'thorough': 2400}

    def bounds(self, tier):
        return dict(candidates='N = 2..5 fully explored' + ('' if tier == 'quick' else ', N = 6 under the time budget (unexplored prefixes reported)'),
                    costs='every upper-triangle entry a symbolic real in [-100,100]', directions=['minimise', 'maximise'],
                    wiring='optimalSegmentation with a symbolic cost table for tracks of 3..%d fixes; optimalSimplification wrapper on concrete tracks' % (5 if tier == 'quick' else 6))

    def jobs(self, tier, seed):
        js = []
        for mode in (0, 1):
            for N in (2, 3, 4):
                js.append(dict(kind='part', N=N, mode=mode, split=[]))
            # N = 5 (and 6): the exploration is spread over the cores by pre-assuming the sign of some interval comparisons
            for bits in itertools.product((0, 1), repeat=4):
                js.append(dict(kind='part', N=5, mode=mode, split=list(bits)))
            if tier == 'thorough':
                for bits in itertools.product((0, 1), repeat=6):
                    js.append(dict(kind='part', N=6, mode=mode, split=list(bits)))
            for size in ((3, 4, 5) if tier == 'quick' else (3, 4, 5, 6)):
                js.append(dict(kind='seg', size=size, mode=mode))
                if size <= 5:       # leftover-state probe: the same track object and cost function a second time, after the track was edited in place (its segment costs change)
                    js.append(dict(kind='seg', size=size, mode=mode, again=True))
            js.append(dict(kind='simp', mode=mode))
            # scale / configuration probes: larger candidate sets with a fixed matrix and two symbolic entries; matrices stored with a narrow numpy dtype
            for N in ((8, 11) if tier == 'quick' else (7, 8, 9, 10, 11, 12)):
                for variant in (0, 1):
                    js.append(dict(kind='part', N=N, mode=mode, split=[], fixed=variant))
            for dt in ('uint8', 'int16', 'bool', 'float32', 'int64'):
                for N in ((5, 9) if tier == 'quick' else (3, 5, 7, 9, 12)):
                    js.append(dict(kind='typed', N=N, mode=mode, dtype=dt))
        js.sort(key=lambda j: 0 if (j['kind'] == 'typed' or 'fixed' in j or j.get('again')) else (2 if j.get('N') == 6 else 1))      # probes first, the N = 6 enumeration (runs into the budget) last
        return js

    def patches(self, job):
        if job['kind'] == 'typed':
            return []        # every entry is a plain number of the given dtype: the real numpy runs (an object-array table would keep np.bool_ / np.uint8 scalars and their wrap-around arithmetic)
        return [(SEG, 'np', SymNumpy())]

    def _split_constraints(self, c, N, bits):
        triples = [(i, k, j) for j in range(2, N) for i in range(0, j - 1) for k in range(i + 1, j)]
        cs = []
        for b, (i, k, j) in zip(bits, triples):
            lhs = c[(i, k)] + c[(k, j)]
            cs.append(lhs < c[(i, j)] if b else lhs >= c[(i, j)])
        return cs

    def _assert_opt(self, ctx, res, N, c, mode, label):
        if not (isinstance(res, list) and all(isinstance(x, (int, np.integer)) for x in res)):
            ctx.fail('%s: result is not a list of indices' % label)
            return
        res = [int(x) for x in res]
        if res[0] != 0 or res[-1] != N - 1 or any(a >= b for a, b in zip(res, res[1:])):
            ctx.fail('%s: result is not strictly increasing from the first to the last candidate' % label)
            return
        mine = z3.Sum(cost_of(res, c)) if len(res) > 2 else cost_of(res, c)[0]
        others = []
        for p in all_partitions(N):
            t = cost_of(p, c)
            others.append(z3.Sum(t) if len(t) > 1 else t[0])
        goal = z3.And([mine <= o for o in others]) if mode == 0 else z3.And([mine >= o for o in others])
        ctx.prove(goal, '%s: summed segment costs are the %s over all partitions' % (label, 'minimum' if mode == 0 else 'maximum'))

    @staticmethod
    def _fixed_cost(i, j, variant):
        import zlib
        h = zlib.crc32(('%d,%d/%d' % (i, j, variant)).encode()) % 1024
        return (h / 8.0 - 64.0) if variant == 0 else float(h % 7) - 2.0      # variant 1: many ties

    @staticmethod
    def _typed_matrix(N, dt, sel):
        """(N+1) x (N+1) numpy matrix of the given dtype with small non-negative integer entries (exactly representable in every dtype used);
        two entries are picked by the selectors sel from {low, middle, high}; returns the matrix and the exact integer costs"""
        import zlib
        hi = 1 if dt == 'bool' else 60
        C = np.zeros((N + 1, N + 1), dtype=dt)
        c = {}
        picks = {(0, N - 1): sel[0], (1, max(2, N - 2)): sel[1]}
        for i in range(N):
            for j in range(i + 1, N):
                v = zlib.crc32(('%d;%d' % (i, j)).encode()) % (hi + 1)
                if (i, j) in picks:
                    v = (0, hi // 2, hi)[picks[(i, j)]]
                c[(i, j)] = int(v)
                C[i, j] = C[j, i] = v
        return C, c

    def path(self, ctx, job):
        seg = sys.modules[SEG]
        eng = ctx.eng
        mode = job['mode']
        if job['kind'] == 'part':
            N = job['N']
            c = {}
            C = np.empty((N + 1, N + 1), dtype=object)
            C.fill(0.0)
            for i in range(N):
                for j in range(i + 1, N):
                    if 'fixed' in job and (i, j) not in ((0, N - 1), (1, N - 2)):
                        v = self._fixed_cost(i, j, job['fixed'])
                        c[(i, j)] = core.zreal(v)
                        C[i, j] = C[j, i] = v
                        continue
                    v = eng.real('c%d_%d' % (i, j), -100, 100)
                    c[(i, j)] = v.z
                    C[i, j] = v
                    C[j, i] = v
            for cs in self._split_constraints(c, N, job['split']):
                eng.assume(cs)
            try:
                res = seg.optimalPartition(C, mode, verbose=False)
            except Exception as e:
                ctx.fail('optimalPartition raised %s' % type(e).__name__)
                return
            ctx.observe(res=list(res))
            ctx.reach()
            self._assert_opt(ctx, res, N, c, mode, 'optimalPartition')
            # the caller's matrix is an input: it must come back unchanged, and asking again must give the same optimum
            for i in range(N):
                for j in range(i + 1, N):
                    if 'fixed' in job and not core.is_sym(C[i, j]):
                        if C[i, j] != self._fixed_cost(i, j, job['fixed']) or C[j, i] != C[i, j]:
                            ctx.fail('optimalPartition modified the cost matrix it was given')
                            return
                        continue
                    if C[i, j] is not C[j, i] or zreal(C[i, j]) is not c[(i, j)] and not z3.eq(zreal(C[i, j]), c[(i, j)]):
                        ctx.fail('optimalPartition modified the cost matrix it was given')
                        return
            try:
                res2 = seg.optimalPartition(C, mode, verbose=False)
            except Exception as e:
                ctx.fail('a second optimalPartition call on the same matrix raised %s' % type(e).__name__)
                return
            self._assert_opt(ctx, res2, N, c, mode, 'optimalPartition (second call on the same matrix)')
        elif job['kind'] == 'typed':
            N, dt = job['N'], job['dtype']
            C, c = self._typed_matrix(N, dt, [eng.choice('a', 3), eng.choice('b', 3)])
            keep = C.copy()
            try:
                res = seg.optimalPartition(C, mode, verbose=False)
            except Exception as e:
                ctx.fail('optimalPartition on a %s matrix raised %s' % (dt, type(e).__name__))
                return
            ctx.observe(res=[int(x) for x in res])
            ctx.reach()
            self._assert_opt(ctx, res, N, {k: z3.RealVal(v) for k, v in c.items()}, mode, 'optimalPartition on a matrix stored with a narrow numpy dtype')
            if C.dtype != keep.dtype or not (C == keep).all():
                ctx.fail('optimalPartition modified the cost matrix it was given')
        elif job['kind'] == 'seg':
            from checks.c11 import make_track
            size = job['size']
            N = size - 1
            tr = make_track(size)
            table = {}
            calls = []

            phase = [1]

            def cost(track, i, j, *a):
                if phase[0] == 0:      # before the edit: costs that favour the opposite partition
                    return float((i * 7 + j * 3) % 5) * (1 if mode == 0 else -1)
                calls.append((i, j))
                key = (i, j)
                if key not in table:
                    table[key] = eng.real('k%d_%d' % (i, j if j >= 0 else 99), -100, 100)
                return table[key]
            try:
                if job.get('again'):
                    phase[0] = 0
                    seg.optimalSegmentation(tr, cost, None, mode, verbose=False)
                    tr.getObs(1).position.setX(tr.getObs(1).position.getX() + 5.0)      # the caller edits the track in place: the (position-dependent) costs are now others
                    phase[0] = 1
                res = seg.optimalSegmentation(tr, cost, None, mode, verbose=False)
            except Exception as e:
                ctx.fail('optimalSegmentation raised %s' % type(e).__name__)
                return
            c = {}
            for i in range(N):
                for j in range(i + 1, N):
                    if (i, j - 1) not in table:
                        ctx.reach()
                        ctx.fail('optimalSegmentation did not evaluate the cost of a segment of the track it was given')
                        return
                    c[(i, j)] = table[(i, j - 1)].z
            ctx.observe(res=list(res))
            ctx.reach()
            self._assert_opt(ctx, res, N, c, mode, 'optimalSegmentation (matrix C[i,j] = cost(i, j-1))')
        else:
            # wrapper: optimalSimplification keeps exactly the fixes selected by optimalSegmentation (concrete track)
            sim = sys.modules[SIM]
            from checks.c11 import make_track
            tr = make_track(6)
            w = eng.real('w', 0, 100)

            def cost(track, i, j, eps):
                return w * ((j - i) % 3) + abs(j - i - 2) * 3.0 + eps
            sel = seg.optimalSegmentation(tr, cost, 1.0, 0, verbose=False)
            try:
                import io, contextlib
                with contextlib.redirect_stdout(io.StringIO()), contextlib.redirect_stderr(io.StringIO()):
                    out = sim.optimalSimplification(tr, cost, 1.0)
            except Exception as e:
                ctx.fail('optimalSimplification raised %s' % type(e).__name__)
                return
            ctx.reach()
            got = [(out.getObs(i).position.getX(), out.getObs(i).position.getY()) for i in range(out.size())]
            want = [(tr.getObs(i).position.getX(), tr.getObs(i).position.getY()) for i in sel]
            ctx.observe(n=len(got))
            if got != want:
                ctx.fail('optimalSimplification does not keep exactly the selected fixes')

    def concrete(self, job, inp):
        seg = sys.modules[SEG]
        mode = job['mode']
        if job['kind'] == 'typed':
            N, dt = job['N'], job['dtype']
            C, c = self._typed_matrix(N, dt, [int(inp['a']), int(inp['b'])])
            try:
                res = [int(x) for x in seg.optimalPartition(C, mode, verbose=False)]
            except Exception as e:
                return dict(violation='optimalPartition on a %s matrix raised %s: %s' % (dt, type(e).__name__, e))
            r = self._conc_opt(res, N, {k: float(v) for k, v in c.items()}, mode, 'optimalPartition on a %s matrix (%d candidates)' % (dt, N))
            return r
        if job['kind'] == 'part':
            N = job['N']
            C = np.zeros((N + 1, N + 1))
            c = {}
            for i in range(N):
                for j in range(i + 1, N):
                    if 'fixed' in job and (i, j) not in ((0, N - 1), (1, N - 2)):
                        c[(i, j)] = C[i, j] = C[j, i] = self._fixed_cost(i, j, job['fixed'])
                        continue
                    c[(i, j)] = C[i, j] = C[j, i] = float(inp['c%d_%d' % (i, j)])
            try:
                res = [int(x) for x in seg.optimalPartition(C, mode, verbose=False)]
            except Exception as e:
                return dict(violation='optimalPartition raised %s: %s' % (type(e).__name__, e))
            r1 = self._conc_opt(res, N, c, mode, 'optimalPartition')
            if r1.get('violation'):
                return r1
            if any(C[i, j] != c[(i, j)] or C[j, i] != c[(i, j)] for (i, j) in c):
                return dict(violation='optimalPartition modified the cost matrix it was given (upper triangle was %r, now %r)' % (c, {k: float(C[k]) for k in c}), outputs=r1.get('outputs'))
            try:
                res2 = [int(x) for x in seg.optimalPartition(C, mode, verbose=False)]
            except Exception as e:
                return dict(violation='second optimalPartition call raised %s: %s' % (type(e).__name__, e))
            r2 = self._conc_opt(res2, N, c, mode, 'optimalPartition (second call on the same matrix)')
            return dict(violation=r2.get('violation'), outputs=r1.get('outputs'))
        if job['kind'] == 'seg':
            from checks.c11 import make_track
            size = job['size']
            N = size - 1
            tr = make_track(size)

            phase = [1]

            def cost(track, i, j, *a):
                if phase[0] == 0:
                    return float((i * 7 + j * 3) % 5) * (1 if mode == 0 else -1)
                return float(inp.get('k%d_%d' % (i, j if j >= 0 else 99), float((i * 5 + j * 11) % 7) - 3.0))      # (costs never asked for on the symbolic path: a fixed non-constant table)
            try:
                if job.get('again'):
                    phase[0] = 0
                    seg.optimalSegmentation(tr, cost, None, mode, verbose=False)
                    tr.getObs(1).position.setX(tr.getObs(1).position.getX() + 5.0)
                    phase[0] = 1
                res = [int(x) for x in seg.optimalSegmentation(tr, cost, None, mode, verbose=False)]
            except Exception as e:
                return dict(violation='optimalSegmentation raised %s: %s' % (type(e).__name__, e))
            phase[0] = 1
            c = {(i, j): cost(tr, i, j - 1) for i in range(N) for j in range(i + 1, N)}
            return self._conc_opt(res, N, c, mode, 'optimalSegmentation')
        sim = sys.modules[SIM]
        from checks.c11 import make_track
        tr = make_track(6)
        w = float(inp['w'])

        def cost(track, i, j, eps):
            return w * ((j - i) % 3) + abs(j - i - 2) * 3.0 + eps
        sel = seg.optimalSegmentation(tr, cost, 1.0, 0, verbose=False)
        import io, contextlib
        with contextlib.redirect_stdout(io.StringIO()), contextlib.redirect_stderr(io.StringIO()):
            out = sim.optimalSimplification(tr, cost, 1.0)
        got = [(out.getObs(i).position.getX(), out.getObs(i).position.getY()) for i in range(out.size())]
        want = [(tr.getObs(i).position.getX(), tr.getObs(i).position.getY()) for i in sel]
        return dict(violation=None if got == want else 'optimalSimplification kept %r, selected fixes are %r' % (got, want), outputs=dict(n=len(got)))

    def _conc_opt(self, res, N, c, mode, label):
        out = dict(res=res)
        if not res or res[0] != 0 or res[-1] != N - 1 or any(a >= b for a, b in zip(res, res[1:])):
            return dict(violation='%s returned %r: not strictly increasing from 0 to %d' % (label, res, N - 1), outputs=out)
        mine = sum(c[(a, b)] for a, b in zip(res, res[1:]))
        vals = [(sum(c[(a, b)] for a, b in zip(p, p[1:])), p) for p in all_partitions(N)]
        best = min(vals) if mode == 0 else max(vals)
        if (mode == 0 and mine > best[0] + 1e-9) or (mode == 1 and mine < best[0] - 1e-9):
            return dict(violation='%s(%s) returned %r with cost %r; %r has cost %r' % (label, 'MINIMIZE' if mode == 0 else 'MAXIMIZE', res, mine, best[1], best[0]), outputs=out)
        return dict(violation=None, outputs=out)


CHECK = C12()
