"""Job runner, replay, known findings and evidence for symx-based checks."""
import os
import sys
import json
import time
import math
import random
import traceback
import fractions
import multiprocessing as mp
import contextlib
import z3

from . import core
from .core import Engine, Unsupported, _Abort, _Stop
from .lifts import Patches

VERIF = os.path.dirname(os.path.dirname(os.path.abspath(__file__)))
REPO = os.environ.get('VERIF_REPO', '/repo')
EVDIR = os.environ.get('VERIF_EVIDENCE_DIR') or os.path.join(VERIF, 'evidence')
EXIT_OK, EXIT_VIOLATION, EXIT_HARNESS = 0, 1, 2
_DEVNULL = open(os.devnull, 'w')


def load_known():
    p = os.path.join(VERIF, 'known_findings.json')
    if not os.path.exists(p):
        return []
    return json.load(open(p))


def jsonable(x):
    if isinstance(x, fractions.Fraction):
        return float(x) if x.denominator != 1 else int(x)
    if isinstance(x, float):
        if x != x:
            return 'NaN'
        if x in (math.inf, -math.inf):
            return 'inf' if x > 0 else '-inf'
        return x
    if isinstance(x, (int, str, bool)) or x is None:
        return x
    if isinstance(x, dict):
        return {str(k): jsonable(v) for k, v in x.items()}
    if isinstance(x, (list, tuple, set)):
        return [jsonable(v) for v in x]
    try:
        import numpy as np
        if isinstance(x, np.generic):
            return jsonable(x.item())
    except Exception:
        pass
    return repr(x)


def unjson_inputs(d):
    out = {}
    for k, v in d.items():
        out[k] = float('nan') if v == 'NaN' else v
    return out


def to_float_inputs(inputs):
    """model values (int / Fraction / nan) -> plain python numbers fed to the real code"""
    out = {}
    for k, v in inputs.items():
        if isinstance(v, fractions.Fraction):
            out[k] = float(v)
        else:
            out[k] = v
    return out


class Check:
    """base class of a property harness"""
    id = 'C00'
    title = ''
    functions = []        # tracklib functions the harness drives (informational; measured list is in evidence)
    stubs = []            # every stub / lift is part of the claim
    assumptions = []
    outside = []
    classes = {}          # known-finding classes: name -> description

    def bounds(self, tier):
        return {}

    def jobs(self, tier, seed):
        raise NotImplementedError

    def patches(self, job):
        return []

    def path(self, ctx, job):
        raise NotImplementedError

    def concrete(self, job, inputs):
        """run the real (unpatched) code on plain numbers; return dict(violation=None|str, outputs={...})"""
        return None

    engine_opts = {}
    budget = {'quick': 100, 'thorough': 1200}   # seconds of wall time for the exploration phase
    max_paths_per_job = {'quick': 20000, 'thorough': 200000}


class PathCtx:
    def __init__(self, eng, check, job, patches, known_classes):
        self.eng = eng
        self.check = check
        self.job = job
        self.patches = patches
        self.known_classes = known_classes
        self.findings = []       # dicts: kind = violation | known | unknown | spurious | unsupported
        self.outputs = {}
        self.proved = 0
        self.reached = 0
        self.reach_unknown = 0
        self.hints = []
        self.note = None
        self.last_classes = None

    # reachability twin: `assert False` at the assertion point must be violated (pc satisfiable)
    def reach(self):
        r = self.eng._check()
        if r == z3.unknown:      # e.g. a timeout under load: ask again with a fresh solver and the verification budget
            r = z3.sat if self.eng.path_model() is not None else z3.unknown
        if r == z3.sat:
            self.reached += 1
        elif r == z3.unknown:
            self.reach_unknown += 1
        return r == z3.sat

    def observe(self, **kw):
        """symbolic outputs to be validated against the concrete implementation under the path's model"""
        self.outputs.update(kw)

    def _concrete(self, inputs):
        with self.patches.suspended():
            saved = core.ENG
            try:
                with contextlib.redirect_stdout(_DEVNULL):
                    return self.check.concrete(self.job, to_float_inputs(inputs))
            except Exception as e:  # the harness' concrete oracle crashed: treat as not reproduced, keep the trace
                return dict(violation=None, error='concrete replay crashed: %s: %s' % (type(e).__name__, e))
            finally:
                core.ENG = saved

    def _model_inputs(self, goal):
        eng = self.eng
        m = eng.nice_model([goal])
        return m

    def prove(self, cond, what, classes=None, chain=True, timeout_ms=None):
        """decide pc => cond on this path.  True iff proved (possibly after excluding known-finding classes)."""
        eng = self.eng
        c = cond.b if isinstance(cond, core.SBool) else cond
        if c is True:
            self.proved += 1
            return True
        if c is False:
            c = z3.BoolVal(False)
        else:
            cs = z3.simplify(c)
            if z3.is_true(cs):           # closed formula that simplifies to true: no solver call needed
                self.proved += 1
                return True
        if classes:
            self.last_classes = classes
        excl = []
        tries = 0
        while True:
            status, model = eng.valid(z3.Or([c] + excl) if excl else c, timeout_ms)
            if status == 'proved':
                self.proved += 1
                if chain and not excl:
                    eng.assume(c)
                return True
            if status == 'unknown':
                self.findings.append(dict(kind='unknown', what=what))
                return False
            goal = z3.And([z3.Not(c)] + [z3.Not(e) for e in excl])
            nice = eng.nice_model([goal])
            m = nice or model
            inputs = eng.input_values(m)
            res = self._concrete(inputs) if self.check.concrete.__func__ is not Check.concrete else None
            if res is None:
                self.findings.append(dict(kind='violation', what=what, inputs=inputs, unreplayed=True))
                return False
            if res.get('violation'):
                cls = None
                for name, pred in (classes or {}).items():
                    try:
                        if core.model_value(m, pred) is True:
                            cls = name
                            break
                    except Exception:
                        pass
                if cls is not None and cls in self.known_classes:
                    self.findings.append(dict(kind='known', cls=cls, what=what, inputs=inputs,
                                              observed=res.get('violation')))
                    excl.append(classes[cls])
                    continue
                self.findings.append(dict(kind='violation', what=what, inputs=inputs, cls=cls,
                                          observed=res.get('violation'), detail=res.get('detail')))
                return False
            # candidate did not reproduce on the real code: look for another model a few times
            tries += 1
            if tries >= 4:
                self.findings.append(dict(kind='spurious', what=what, inputs=inputs, note=res.get('error')))
                if z3.is_false(z3.simplify(c)):
                    # an exception seen only on proxies (typically a C boundary the value model cannot cross): the path is
                    # inconclusive; try the boundary models concretely
                    self._concolic()
                return False
            pt = []
            for name in eng.input_order:
                v = eng.inputs[name]
                if not isinstance(v, float):
                    pt.append(v == m.eval(v, model_completion=True))
            excl.append(z3.And(pt) if pt else z3.BoolVal(True))

    def lemma(self, cond, timeout_ms=None):
        """auxiliary fact: if pc => cond is proved it is added to the path condition (it is implied, nothing is assumed);
        a failed lemma is not a finding - the caller falls back to the direct query"""
        c = cond.b if isinstance(cond, core.SBool) else cond
        status, _ = self.eng.valid(c, timeout_ms)
        if status == 'proved':
            self.eng.assume(c)
            return True
        return False

    def fail(self, what, classes=None):
        """the path itself (e.g. an exception raised by the code) violates the property if it is feasible"""
        return self.prove(z3.BoolVal(False), what, classes=classes, chain=False)

    def unsupported(self, what):
        """the value model cannot follow this path (C boundary, unsupported operation): the path is inconclusive.
        Concolic fallback: a model of the path condition reached so far is run concretely on the real code with the
        harness' concrete oracle; a violation observed there is a replayed violation like any other."""
        self.eng.stats['unsupported'] += 1
        self.findings.append(dict(kind='unsupported', what=what))
        if self.check.concrete.__func__ is Check.concrete:
            return
        self._concolic()

    def _concolic(self):
        # models tried: one per boundary hint the harness declared (ties, exact divisions, ... named by the property), then an arbitrary one
        for hint in list(getattr(self, 'hints', [])) + [None]:
            try:
                extra = [hint] if hint is not None else []
                m = self.eng.nice_model(extra) or self.eng.path_model(extra)
                if m is None:
                    continue
                inputs = self.eng.input_values(m)
                res = self._concrete(inputs)
            except Exception:
                continue
            if res and res.get('violation'):
                self.findings.append(dict(kind='violation', what='concrete run of a model of a path the symbolic engine could not follow: property violated',
                                          inputs=inputs, observed=res.get('violation'), detail=res.get('detail')))
                return


def _is_proxy_typeerror(e):
    s = str(e)
    return isinstance(e, TypeError) and ('SReal' in s or 'SInt' in s or 'SBool' in s or '<sym>' in s)


def run_job(args):
    check, job, tier, seed, deadline, known_classes, trace_functions = args
    t0 = time.time()
    opts = dict(check.engine_opts)
    eng = Engine(seed=seed, **opts)
    try:
        eng.xcheck_every = int(os.environ.get('VERIF_XCHECK', '') or (getattr(check, 'xcheck_every', {}).get(tier, 97 if tier == 'quick' else 23)))
    except ValueError:
        eng.xcheck_every = 0
    eng.xcheck_max = 1 if tier == 'quick' else 40
    if tier == 'quick' and (hash(json.dumps(job, sort_keys=True, default=str)) % 16) != 0:
        eng.xcheck_every = 0          # quick tier: the first verification query of about one job in 16
    res = dict(job=job, findings=[], samples=[], functions=[], validated=0, mismatches=[], reached=0, reach_unknown=0, proved=0,
               error=None)
    rng = random.Random(seed * 7919 + hash(json.dumps(job, sort_keys=True, default=str)) % 100003)
    state = dict(first=True)
    funcs = set()

    def prof(frame, event, arg):
        if event == 'call':
            fn = frame.f_code.co_filename
            if '/tracklib/' in fn:
                funcs.add(fn.split('/tracklib/', 1)[1] + ':' + frame.f_code.co_qualname)

    def path(eng):
        from symx.world import WORLD
        WORLD.restore()         # every path starts from the library's state as imported
        patches = Patches(check.patches(job))
        ctx = PathCtx(eng, check, job, patches, known_classes)
        tracing = state['first'] and trace_functions
        state['first'] = False
        with patches:
            if tracing:
                sys.setprofile(prof)
            try:
                with contextlib.redirect_stdout(_DEVNULL):     # tracklib prints warnings / progress to stdout
                    check.path(ctx, job)
            except (_Abort, _Stop):
                raise
            except Unsupported as e:
                ctx.unsupported('unsupported: %s' % e)
            except RecursionError as e:
                ctx.unsupported('recursion limit')
            except Exception as e:
                if eng.swallowed_abort:
                    raise _Abort()
                if _is_proxy_typeerror(e):
                    ctx.unsupported('unsupported (C boundary): %s' % e)
                else:
                    raise
            finally:
                if tracing:
                    sys.setprofile(None)
        if eng.swallowed_abort:
            raise _Abort()
        # encoding validation: symbolic outputs under the path's model vs the real code on the same numbers
        has_concrete = check.concrete.__func__ is not Check.concrete
        if (ctx.outputs or has_concrete) and res['validated'] + len(res['mismatches']) + state.get('plain', 0) < 400 and not any(f['kind'] in ('unsupported',) for f in ctx.findings):
            m = eng.nice_model([]) or eng.path_model()
            inputs = eng.input_values(m) if m is not None else None
            if inputs is not None and any(isinstance(v, fractions.Fraction) and fractions.Fraction(float(v)) != v for v in inputs.values()):
                m = None      # no exactly representable model of this path: a float run would not follow the same path
            if m is not None:
                try:
                    with contextlib.redirect_stdout(_DEVNULL):
                        cres = check.concrete(job, to_float_inputs(inputs))
                except Exception as e:
                    cres = dict(outputs=None, error='%s: %s' % (type(e).__name__, e))
                confirmed = False
                if cres is not None and cres.get('violation') and not any(f['kind'] in ('violation', 'known') for f in ctx.findings):
                    # the real code, run on a model of this path with ordinary numbers, is judged wrong by the concrete oracle although the value
                    # model followed the path without a finding.  Two causes: behaviour that depends on the KIND of value (numpy scalar, bool,
                    # int) - it shows on every model of the path - or binary rounding at the particular (border) model - it does not.  The
                    # verdict is therefore asked again on two further models of the same path in which every symbolic input takes values not used before;
                    # only a violation on all of them is reported, otherwise it is kept as a validation mismatch (inconclusive).
                    confirmed = True
                    diffs = []
                    for name in eng.input_order:
                        v = eng.inputs[name]
                        if not isinstance(v, float):
                            diffs.append(v != m.eval(v, model_completion=True))
                    seen_models = [m]
                    for attempt in range(2):          # two further models, each differing from all earlier ones in every symbolic input
                        if not diffs or not confirmed:
                            break
                        try:
                            m2 = eng.nice_model(diffs) or eng.path_model(diffs) or eng.nice_model([z3.Or(diffs)]) or eng.path_model([z3.Or(diffs)])
                        except Exception:
                            m2 = None
                        if m2 is None:
                            break
                        try:
                            with contextlib.redirect_stdout(_DEVNULL):
                                cres2 = check.concrete(job, to_float_inputs(eng.input_values(m2)))
                        except Exception as e:
                            cres2 = None
                        if not (cres2 and cres2.get('violation')):
                            confirmed = False
                            res['mismatches'].append(dict(inputs=jsonable(inputs), diff=['concrete oracle: %s (not on another model of the path: rounding at this model)' % str(cres.get('violation'))[:200]]))
                            break
                        seen_models.append(m2)
                        for name in eng.input_order:
                            v = eng.inputs[name]
                            if not isinstance(v, float):
                                diffs.append(v != m2.eval(v, model_completion=True))
                if confirmed:
                    cls = None
                    for name, pred in (ctx.last_classes or {}).items():
                        try:
                            if core.model_value(m, pred) is True:
                                cls = name
                                break
                        except Exception:
                            pass
                    if cls is not None and cls in known_classes:
                        ctx.findings.append(dict(kind='known', cls=cls, what='concrete run of the path model', inputs=inputs, observed=cres.get('violation')))
                    else:
                        ctx.findings.append(dict(kind='violation', what='the real code run on a model of a proved path violates the property (behaviour the value model does not show)',
                                                 inputs=inputs, cls=cls, observed=cres.get('violation'), detail=cres.get('detail')))
                if not ctx.outputs:
                    state['plain'] = state.get('plain', 0) + 1
                elif cres is not None and cres.get('outputs') is not None:
                    bad = compare_outputs(m, ctx.outputs, cres['outputs'])
                    if bad:
                        res['mismatches'].append(dict(inputs=jsonable(inputs), diff=bad[:3]))
                    else:
                        res['validated'] += 1
                elif cres is not None and cres.get('error'):
                    res['mismatches'].append(dict(inputs=jsonable(inputs), diff=[cres['error']]))
        res['reached'] += ctx.reached
        res['reach_unknown'] += ctx.reach_unknown
        res['proved'] += ctx.proved
        for f in ctx.findings:
            f = dict(f)
            if 'inputs' in f:
                f['inputs'] = jsonable(f['inputs'])
            res['findings'].append(f)
        if len(res['samples']) < 2 or (len(res['samples']) < 4 and rng.random() < 0.05):
            try:
                m = eng.path_model()
                smp = dict(job=job, decisions=len(eng.script), path_constraints=len(eng.pc),
                           inputs=jsonable(eng.input_values(m)) if m is not None else None,
                           assertions_proved=ctx.proved,
                           verdict='all proved' if not ctx.findings else [f['kind'] + ': ' + f['what'] for f in ctx.findings][:4])
                if ctx.note:
                    smp['note'] = ctx.note
                res['samples'].append(smp)
            except Exception:
                pass
        return None

    try:
        eng.explore(path, max_paths=check.max_paths_per_job.get(tier, 10 ** 9), deadline=deadline)
    except Exception as e:
        res['error'] = '%s: %s\n%s' % (type(e).__name__, e, traceback.format_exc())
    res['stats'] = eng.stats
    res['xc_disagreements'] = eng.xcheck_disagreements[:3]
    res['exhaustive'] = eng.exhaustive
    res['pending_left'] = eng.pending_left
    res['functions'] = sorted(funcs)
    res['wall_s'] = time.time() - t0
    return res


def compare_outputs(m, sym, conc):
    bad = []
    for k, sv in sym.items():
        if k not in conc:
            continue
        cv = conc[k]
        svs = sv if isinstance(sv, (list, tuple)) else [sv]
        cvs = cv if isinstance(cv, (list, tuple)) else [cv]
        if len(svs) != len(cvs):
            bad.append('%s: length %d vs %d' % (k, len(svs), len(cvs)))
            continue
        for i, (a, b) in enumerate(zip(svs, cvs)):
            try:
                if core.is_sym(a):
                    a = core.model_value(m, a.b if isinstance(a, core.SBool) else a.z)
                if isinstance(a, fractions.Fraction):
                    a = float(a)
                if isinstance(a, float) and a != a:
                    ok = isinstance(b, float) and b != b
                elif isinstance(a, (int, float)) and isinstance(b, (int, float)) and not isinstance(a, bool):
                    ok = (b == b) and abs(a - b) <= 1e-6 * max(1.0, abs(a), abs(b))
                else:
                    ok = (a == b)
            except Exception as e:
                ok = False
                b = '%r (%s)' % (b, e)
            if not ok:
                bad.append('%s[%d]: symbolic %r vs concrete %r' % (k, i, a, b))
    return bad


def main(check, argv=None):
    import argparse
    ap = argparse.ArgumentParser()
    ap.add_argument('--tier', default=os.environ.get('VERIF_TIER', 'quick'))
    ap.add_argument('--replay', default=None)
    ap.add_argument('--jobs', type=int, default=int(os.environ.get('VERIF_JOBS', '0')) or (os.cpu_count() or 4))
    ap.add_argument('--only', default=None, help='substring filter on the job description (development)')
    ap.add_argument('--budget', type=float, default=None)
    a = ap.parse_args(argv)
    tier = a.tier if a.tier in ('quick', 'thorough') else 'quick'
    try:
        seed = int(os.environ.get('VERIF_SEED', '0'))
    except ValueError:
        seed = 0

    if a.replay:
        return replay(check, a.replay)

    t0 = time.time()
    known = [k for k in load_known() if k.get('property') == check.id]
    known_classes = {k['class'] for k in known if k.get('kind') == 'known'}
    jobs = check.jobs(tier, seed)
    if a.only:
        jobs = [j for j in jobs if a.only in json.dumps(j, default=str)]
    budget = a.budget or check.budget.get(tier, 100)
    deadline = t0 + budget
    seen_kinds = set()
    args = []
    for i, j in enumerate(jobs):
        kind = j.get('kind') if isinstance(j, dict) else None
        args.append((check, j, tier, seed, deadline, known_classes, i < 4 or kind not in seen_kinds))
        seen_kinds.add(kind)
    results = []
    nproc = max(1, min(a.jobs, len(args)))
    if nproc == 1:
        _snapshot_world()
        for x in args:
            results.append(run_job(x))
    else:
        hard = float(os.environ.get('VERIF_JOB_HARD_LIMIT', '') or max(90.0, 0.75 * budget))
        results = run_pool(args, nproc, deadline, hard)
    return finish(check, tier, seed, jobs, results, known, time.time() - t0, budget)


def _snapshot_world():
    """process-wide state of the library as imported, before any job ran (see symx/world.py)"""
    from symx.world import WORLD
    if WORLD.taken:
        return
    import importlib
    for name in ('tracklib', 'tracklib.core', 'tracklib.core.obs_time', 'tracklib.core.obs_coords', 'tracklib.core.obs', 'tracklib.core.track', 'tracklib.core.track_collection',
                 'tracklib.core.operators', 'tracklib.core.kernel', 'tracklib.core.utils', 'tracklib.core.network', 'tracklib.core.spatial_index', 'tracklib.core.raster', 'tracklib.core.bbox',
                 'tracklib.algo.analytics', 'tracklib.algo.cinematics', 'tracklib.algo.comparison', 'tracklib.algo.dynamics', 'tracklib.algo.filtering', 'tracklib.algo.interpolation',
                 'tracklib.algo.mapping', 'tracklib.algo.segmentation', 'tracklib.algo.simplification', 'tracklib.algo.summarising', 'tracklib.util.geometry',
                 'tracklib.io.track_writer', 'tracklib.io.track_reader', 'tracklib.io.track_format', 'tracklib.io.network_writer', 'tracklib.io.network_reader', 'tracklib.io.network_format'):
        try:
            with contextlib.redirect_stdout(_DEVNULL):
                importlib.import_module(name)
        except Exception:
            pass
    try:
        WORLD.snapshot()
    except Exception:
        pass


def _worker_loop(conn):
    _snapshot_world()
    while True:
        try:
            x = conn.recv()
        except EOFError:
            return
        if x is None:
            return
        try:
            r = run_job(x)
        except BaseException as e:          # never let a worker die silently
            r = _lost_job(x[1], 'worker error %s: %s' % (type(e).__name__, e), error=True)
        try:
            conn.send(r)
        except Exception as e:
            conn.send(_lost_job(x[1], 'result could not be returned: %s' % e, error=True))


def _lost_job(job, why, error=False):
    return dict(job=job, findings=[dict(kind='unknown', what='job not completed: ' + why, inputs=None, note=None)] if not error else [], samples=[], functions=[], validated=0, mismatches=[],
                reached=0, reach_unknown=1, proved=0, error=('job failed: ' + why) if error else None,
                stats=dict(paths=0, queries=0, unsat=0, sat=0, unknown=0, solver_s=0.0), xc_disagreements=[], exhaustive=False, pending_left=1, wall_s=0.0, timed_out=True)


def run_pool(args, nproc, deadline, hard):
    """fork pool with a hard wall-clock limit per job: a solver call that ignores its timeout (seen inside z3's non-linear bound
    propagation on big rationals) must not hang the check.  A job still running `hard` seconds after it started - or 30 s after the
    exploration deadline, whichever is later - is killed together with its worker, reported as not exhausted (inconclusive),
    and a fresh worker takes over."""
    from multiprocessing.connection import wait
    ctx = mp.get_context('fork')
    todo = list(reversed(args))
    workers = {}          # parent connection -> [process, job args or None, start time]

    def spawn():
        a, b = ctx.Pipe()
        p = ctx.Process(target=_worker_loop, args=(b,), daemon=True)
        p.start()
        b.close()
        workers[a] = [p, None, 0.0]
        return a

    def feed(c):
        if todo:
            x = todo.pop()
            workers[c][1], workers[c][2] = x, time.time()
            c.send(x)
        else:
            workers[c][1] = None
            try:
                c.send(None)
            except Exception:
                pass
    for _ in range(nproc):
        feed(spawn())
    results = []
    while any(w[1] is not None for w in workers.values()):
        busy = [c for c, w in workers.items() if w[1] is not None]
        for c in wait(busy, timeout=2.0):
            w = workers[c]
            try:
                r = c.recv()
            except (EOFError, OSError):
                r = _lost_job(w[1][1], 'the worker process died', error=True)
                w[0].join(1)
                del workers[c]
                c = spawn()
            results.append(r)
            feed(c)
        now = time.time()
        for c, w in list(workers.items()):
            if w[1] is not None and now - w[2] > hard and now > deadline + 30:
                try:
                    w[0].kill()
                    w[0].join(5)
                except Exception:
                    pass
                results.append(_lost_job(w[1][1], 'killed after %.0f s (hard per-job limit %.0f s; a solver call did not honour its timeout)' % (now - w[2], hard)))
                del workers[c]
                try:
                    c.close()
                except Exception:
                    pass
                feed(spawn())
    for c, w in workers.items():
        try:
            w[0].join(2)
            if w[0].is_alive():
                w[0].kill()
        except Exception:
            pass
    return results


def run_crosshair(check, per_condition_timeout=90):
    """second, independent symbolic engine (CrossHair 0.0.110, z3-based, opcode-level tracing) on PEP-316 contracts over the same
    real functions (xh/contracts.py).  'Confirmed over all paths' / 'Not confirmed' are recorded; a counterexample is a disagreement."""
    import subprocess
    out = dict(engine='crosshair-tool', contracts={}, counterexamples=[])
    import tempfile
    mpl = tempfile.mkdtemp(prefix='verif-mpl-')      # matplotlib would otherwise create its config dir inside CrossHair's audit wall
    env = dict(os.environ, PYTHONPATH=os.pathsep.join([REPO, VERIF]), PYTHONWARNINGS='ignore', MPLCONFIGDIR=mpl, MPLBACKEND='Agg')
    for fn in check.crosshair:
        t0 = time.time()
        try:
            src = open(os.path.join(VERIF, 'xh', 'contracts.py')).read().splitlines()
            line = next(i for i, l in enumerate(src) if l.startswith('def %s(' % fn)) + 2
            p = subprocess.run([sys.executable, '-m', 'crosshair', 'check', '--report_all', '--per_condition_timeout', str(per_condition_timeout),
                                'xh/contracts.py:%d' % line], cwd=VERIF, env=env, capture_output=True, text=True, timeout=per_condition_timeout * 4 + 60)
            lines = [l for l in (p.stdout + p.stderr).splitlines() if 'contracts.py' in l]
            txt = ' | '.join(l.split('contracts.py', 1)[1].lstrip(':') for l in lines)[:500]
            if not lines:
                txt = 'no verdict line; tail: ' + (p.stdout + p.stderr)[-300:]
        except Exception as e:
            lines, txt = [], 'crosshair run failed: %s' % e
        verdict = 'confirmed over all paths' if lines and all('Confirmed over all paths' in l for l in lines) else ('counterexample' if any(': error:' in l for l in lines) else 'not confirmed (inconclusive)')
        out['contracts'][fn] = dict(verdict=verdict, output=txt, wall_s=round(time.time() - t0, 1))
        if verdict == 'counterexample':
            out['counterexamples'].append(dict(contract=fn, output=txt))
    import shutil
    shutil.rmtree(mpl, ignore_errors=True)
    return out


def _cvc5_version():
    try:
        import cvc5
        return getattr(cvc5, '__version__', '')
    except Exception:
        return '(not available)'


def _bounds_with_probes(check, tier):
    b = dict(check.bounds(tier))
    try:
        from checks.probes_doc import PROBES
        if check.id in PROBES:
            b['probes (quick [thorough] sizes; DESIGN.md 9.1 / 9.2)'] = PROBES[check.id]
    except Exception:
        pass
    return b


def finish(check, tier, seed, jobs, results, known, wall, budget):
    tot = {}
    for r in results:
        for k, v in r['stats'].items():
            tot[k] = tot.get(k, 0) + v
    errors = [r for r in results if r.get('error')]
    findings = [dict(f, job=r['job']) for r in results for f in r['findings']]
    viol = [f for f in findings if f['kind'] == 'violation']
    knownhits = [f for f in findings if f['kind'] == 'known']
    unknown = [f for f in findings if f['kind'] == 'unknown']
    spurious = [f for f in findings if f['kind'] == 'spurious']
    unsupported = [f for f in findings if f['kind'] == 'unsupported']
    mism = [dict(m, job=r['job']) for r in results for m in r['mismatches']]
    vacuous = [r['job'] for r in results if r['reached'] == 0 and r.get('reach_unknown', 0) == 0 and not r.get('error') and r['stats']['paths'] > 0
               and not getattr(check, 'no_reach', False)]
    nonexh = [r for r in results if not r['exhaustive']]
    funcs = sorted({f for r in results for f in r['functions']})
    samples = [s for r in results for s in r['samples']][:12]
    if not samples:
        samples = [dict(job=j) for j in jobs[:3]] or [dict(note='no job ran')]

    if os.environ.get('VERIF_JOBSTATS'):
        for r in sorted(results, key=lambda r: -r['wall_s'])[:int(os.environ['VERIF_JOBSTATS'])]:
            print('  job %.1fs paths=%d unknown=%d exhaustive=%s %s' % (r['wall_s'], r['stats']['paths'], r['stats']['unknown'], r['exhaustive'], json.dumps(r['job'], default=str)[:150]))
    os.makedirs(os.path.join(EVDIR, 'replays'), exist_ok=True)
    import glob
    for old in glob.glob(os.path.join(EVDIR, 'replays', '%s-*.json' % check.id)):    # replay files of earlier runs are stale
        try:
            os.remove(old)
        except OSError:
            pass
    lines = []
    # known findings: one line per listed class actually seen
    seen_known = {}
    for f in knownhits:
        seen_known.setdefault(f['cls'], f)
    for k in known:
        if k.get('kind') == 'known' and k['class'] in seen_known:
            lines.append('KNOWN-FINDING: property=%s %s' % (check.id, k['what']))
    # violations: group by (what, cls), write replay files
    groups = {}
    for f in viol:
        groups.setdefault((f['what'], f.get('cls')), []).append(f)
    nrep = 0
    for (what, cls), fs in sorted(groups.items(), key=lambda kv: str(kv[0])):
        f = fs[0]
        nrep += 1
        p = os.path.join(EVDIR, 'replays', '%s-%d.json' % (check.id, nrep))
        json.dump(dict(property=check.id, what=what, cls=cls, job=f['job'], inputs=f.get('inputs'),
                       observed=f.get('observed'), detail=jsonable(f.get('detail')), occurrences=len(fs),
                       replay_cmd='cd /verif && ./run_check.sh %s --replay %s' % (check.id, p)),
                  open(p, 'w'), indent=1, default=str)
        lines.append('VIOLATION property=%s replay=%s' % (check.id, p))
        lines.append('  what: %s | observed: %s | inputs: %s' % (what, f.get('observed'), json.dumps(f.get('inputs'), default=str)[:300]))

    npaths = tot.get('paths', 0)
    coverage = dict(
        states=npaths, transitions=tot.get('checks', 0),
        traces_validated_against_impl=sum(r['validated'] for r in results),
        samples=jsonable(samples),
        evaluations=npaths, distinct_nontrivial=npaths,
        rule='one evaluation = one feasible execution path of the real tracklib code inside the stated bounds, '
             'explored by DFS with a z3 feasibility query at every data-dependent decision; paths are distinct by '
             'construction (distinct decision scripts = pairwise disjoint path conditions); a path is non-trivial '
             'when its path condition is satisfiable, which is what the explorer enumerates',
        exhaustive=(not nonexh and not errors),
        jobs=len(jobs), jobs_not_exhausted=len(nonexh),
        unexplored_prefixes=sum(r['pending_left'] for r in results),
        functions_encoded=funcs, bounds=_bounds_with_probes(check, tier), stubs=check.stubs, outside_claim=check.outside,
        queries_total=tot.get('checks', 0), queries_unsat=tot.get('unsat', 0), queries_sat=tot.get('sat', 0),
        queries_unknown=tot.get('unknown', 0), solver_s=round(tot.get('solver_s', 0.0), 2),
        verification_queries=tot.get('verify_q', 0), assertions_proved=sum(r['proved'] for r in results),
        proved_on_cone_slice=tot.get('sliced_proved', 0),
        paths_infeasible_pruned=tot.get('infeasible', 0), forks=tot.get('forks', 0),
        forced_decisions=tot.get('forced', 0), branch_unknown_overapprox=tot.get('branch_unknown', 0),
        paths_inconclusive=len({json.dumps(f['job'], default=str) + f['what'] for f in unknown + spurious + unsupported}),
        inconclusive=dict(solver_unknown=len(unknown), candidate_not_reproduced=len(spurious), unsupported=len(unsupported),
                          examples=jsonable((unknown + spurious + unsupported)[:6])),
        reachability_witnesses=sum(r['reached'] for r in results), reachability_unknown=sum(r.get('reach_unknown', 0) for r in results), vacuous_jobs=jsonable(vacuous[:5]),
        validation_mismatches=len(mism), validation_mismatch_examples=jsonable(mism[:3]),
        known_findings_seen=sorted(seen_known), violations_distinct=len(groups),
        engine='symx (z3 %s) on the real code from %s' % (z3.get_version_string(), REPO),
        budget_s=budget,
    )
    xdis = [dict(d, job=r['job']) for r in results for d in r.get('xc_disagreements', [])]
    coverage['cvc5_crosscheck'] = dict(queries_rechecked=tot.get('xc_asked', 0), agree=tot.get('xc_agree', 0), disagree=tot.get('xc_disagree', 0),
                                       cvc5_unknown=tot.get('xc_unknown', 0), examples=jsonable(xdis[:3]),
                                       note='a sample of the final verification queries (every k-th per job, exported by z3 as SMT-LIB) is re-decided by cvc5 %s; a sat/unsat disagreement is a harness error' % _cvc5_version())
    xh = None
    if tier == 'thorough' and getattr(check, 'crosshair', None):
        xh = run_crosshair(check)
        coverage['crosshair'] = xh
    extra = getattr(check, 'extra_evidence', None)
    if extra:
        coverage.update(jsonable(extra))
    ev = dict(property_id=check.id, tier=tier, seed=seed, level='model_checking', coverage=coverage,
              assumptions=list(check.assumptions) + ['floats modelled as mathematical reals (IEEE rounding of symbolic operands not modelled)',
                                                     'claims hold only inside coverage.bounds; see coverage.outside_claim'],
              wall_s=round(wall, 2), violations=len(groups))
    if npaths == 0:
        ev['coverage']['states'] = 0
    evp = os.path.join(EVDIR, '%s.json' % check.id)
    json.dump(ev, open(evp, 'w'), indent=1, default=str)

    print('%s [%s] jobs=%d paths=%d queries=%d (unsat %d, sat %d, unknown %d) proved=%d inconclusive=%d validated=%d mismatches=%d solver=%.1fs wall=%.1fs%s'
          % (check.id, tier, len(jobs), npaths, tot.get('checks', 0), tot.get('unsat', 0), tot.get('sat', 0), tot.get('unknown', 0),
             coverage['assertions_proved'], len(unknown) + len(spurious) + len(unsupported), coverage['traces_validated_against_impl'],
             len(mism), tot.get('solver_s', 0.0), wall, '' if coverage['exhaustive'] else ' NOT-EXHAUSTED(%d jobs)' % len(nonexh)))
    for f in (unknown + spurious + unsupported)[:5]:
        print('  inconclusive: %s %s %s' % (f['kind'], f['what'], json.dumps(f['job'], default=str)[:120]))
    for l in lines:
        print(l)
    sys.stdout.flush()
    if xh and xh.get('counterexamples') and not groups:
        print('HARNESS-ERROR CrossHair reports a counterexample that symx did not: %s' % json.dumps(xh['counterexamples'])[:600], file=sys.stderr)
        return EXIT_HARNESS
    if xdis:
        print('HARNESS-ERROR z3 and cvc5 disagree on %d verification queries: %s' % (len(xdis), json.dumps(jsonable(xdis[:2]))[:600]), file=sys.stderr)
        return EXIT_HARNESS
    if errors:
        for r in errors[:3]:
            print('HARNESS-ERROR job=%s\n%s' % (json.dumps(r['job'], default=str)[:200], r['error']), file=sys.stderr)
        return EXIT_HARNESS
    if groups:
        return EXIT_VIOLATION
    if npaths == 0:
        print('HARNESS-ERROR no path explored', file=sys.stderr)
        return EXIT_HARNESS
    if vacuous:
        print('HARNESS-ERROR vacuous jobs (assertion point never reached): %s' % json.dumps(vacuous[:3], default=str), file=sys.stderr)
        return EXIT_HARNESS
    if mism and os.environ.get('VERIF_STRICT') == '1':
        print('HARNESS-ERROR encoding validation mismatches: %s' % json.dumps(mism[:3], default=str), file=sys.stderr)
        return EXIT_HARNESS
    return EXIT_OK


def replay(check, path):
    d = json.load(open(path))
    inputs = unjson_inputs(d['inputs'] or {})
    res = check.concrete(d['job'], inputs)
    print('replay %s job=%s' % (path, json.dumps(d['job'], default=str)))
    print('inputs: %s' % json.dumps(jsonable(inputs)))
    print('result: %s' % json.dumps(jsonable(res), default=str)[:2000])
    if res and res.get('violation'):
        print('VIOLATION property=%s replay=%s' % (check.id, path))
        return EXIT_VIOLATION
    print('not reproduced')
    return EXIT_OK
