"""Bit-precise floating-point proxies (z3 FloatingPoint, binary64, round-nearest-even) for small leaf kernels.

The main engine models Python floats as reals; this module is for the few places where a property hinges on IEEE
rounding itself.  The real tracklib functions are executed on SFloat values, which build z3 FP terms; a comparison
used as a branch condition must be decidable from the declared preconditions (no path forking here).  The final query
is exported as SMT-LIB and decided by cvc5 (binary64 multiplication / division / square root are slow to bit-blast:
one query of ~15 operations takes about two minutes)."""
import re
import struct
import time
import z3

F64 = z3.Float64()
RM = z3.RNE()


class FPUnsupported(Exception):
    pass


def fval(x):
    return z3.FPVal(float(x), F64)


def _t(x):
    if isinstance(x, SFloat):
        return x.t
    if isinstance(x, (int, float)):
        return fval(x)
    raise FPUnsupported('cannot lift %r' % type(x))


class Ctx:
    """preconditions of the running kernel + the solver used to decide branch conditions"""
    cur = None

    def __init__(self):
        self.pre = []
        self.decided = 0

    def assume(self, c):
        self.pre.append(c)

    def decide(self, c, timeout_ms=30000):
        def feas(x):
            s = z3.Solver()
            s.set('timeout', timeout_ms)
            for p in self.pre:
                s.add(p)
            s.add(x)
            return s.check()
        a, b = feas(c), feas(z3.Not(c))
        self.decided += 1
        if a == z3.unsat and b != z3.unsat:
            self.pre.append(z3.Not(c))
            return False
        if b == z3.unsat and a != z3.unsat:
            self.pre.append(c)
            return True
        raise FPUnsupported('branch condition not decided by the preconditions (%s / %s)' % (a, b))


class FPred:
    def __init__(self, c):
        self.c = c

    def __bool__(self):
        return Ctx.cur.decide(self.c)

    def __and__(self, o):
        return FPred(z3.And(self.c, o.c if isinstance(o, FPred) else z3.BoolVal(bool(o))))

    def __or__(self, o):
        return FPred(z3.Or(self.c, o.c if isinstance(o, FPred) else z3.BoolVal(bool(o))))


class SFloat:
    __slots__ = ('t',)
    __hash__ = None

    def __init__(self, t):
        self.t = t

    def __add__(self, o): return SFloat(z3.fpAdd(RM, self.t, _t(o)))
    def __radd__(self, o): return SFloat(z3.fpAdd(RM, _t(o), self.t))
    def __sub__(self, o): return SFloat(z3.fpSub(RM, self.t, _t(o)))
    def __rsub__(self, o): return SFloat(z3.fpSub(RM, _t(o), self.t))
    def __mul__(self, o): return SFloat(z3.fpMul(RM, self.t, _t(o)))
    def __rmul__(self, o): return SFloat(z3.fpMul(RM, _t(o), self.t))
    def __truediv__(self, o): return SFloat(z3.fpDiv(RM, self.t, _t(o)))
    def __rtruediv__(self, o): return SFloat(z3.fpDiv(RM, _t(o), self.t))
    def __neg__(self): return SFloat(z3.fpNeg(self.t))
    def __abs__(self): return SFloat(z3.fpAbs(self.t))
    def __lt__(self, o): return FPred(z3.fpLT(self.t, _t(o)))
    def __le__(self, o): return FPred(z3.fpLEQ(self.t, _t(o)))
    def __gt__(self, o): return FPred(z3.fpGT(self.t, _t(o)))
    def __ge__(self, o): return FPred(z3.fpGEQ(self.t, _t(o)))
    def __eq__(self, o): return FPred(z3.fpEQ(self.t, _t(o)))
    def __ne__(self, o): return FPred(z3.Not(z3.fpEQ(self.t, _t(o))))


class FPMath:
    def __getattr__(self, n):
        import math
        return getattr(math, n)

    @staticmethod
    def sqrt(x):
        if isinstance(x, SFloat):
            return SFloat(z3.fpSqrt(RM, x.t))
        import math
        return math.sqrt(x)

    @staticmethod
    def fabs(x):
        if isinstance(x, SFloat):
            return abs(x)
        import math
        return math.fabs(x)


def var(name, lo, hi, ctx):
    v = z3.FP(name, F64)
    ctx.assume(z3.And(z3.fpGEQ(v, fval(lo)), z3.fpLEQ(v, fval(hi))))
    return SFloat(v)


def _bits_to_float(s, e, m):
    return struct.unpack('>d', int(s + e + m, 2).to_bytes(8, 'big'))[0]


def solve_cvc5(constraints, names, timeout_s=300):
    """decide the conjunction with cvc5; returns ('sat', {name: float}) | ('unsat', None) | ('unknown', None), seconds"""
    import cvc5
    s = z3.Solver()
    for c in constraints:
        s.add(c)
    txt = s.to_smt2().replace('(check-sat)', '(check-sat)\n(get-value (%s))' % ' '.join(names))
    slv = cvc5.Solver()
    slv.setOption('produce-models', 'true')
    slv.setOption('tlimit-per', str(int(timeout_s * 1000)))
    slv.setLogic('ALL')
    prs = cvc5.InputParser(slv)
    prs.setStringInput(cvc5.InputLanguage.SMT_LIB_2_6, txt, 'symx-fp')
    sm = prs.getSymbolManager()
    t0 = time.time()
    ans, vals = 'unknown', None
    try:
        while True:
            cmd = prs.nextCommand()
            if cmd.isNull():
                break
            out = str(cmd.invoke(slv, sm)).strip()
            if out in ('sat', 'unsat', 'unknown'):
                ans = out
                if ans != 'sat':
                    break
            elif ans == 'sat' and out.startswith('(('):
                vals = {}
                for nm, sgn, e, m in re.findall(r'\((\w+) \(fp #b([01]) #b([01]{11}) #b([01]{52})\)\)', out):
                    vals[nm] = _bits_to_float(sgn, e, m)
    except Exception as ex:
        return 'unknown', None, time.time() - t0
    return ans, vals, time.time() - t0
