"""Run-time rebinding of names inside the imported tracklib modules (never edits /repo)."""
import sys
import contextlib
import numpy as _np
from . import core

_MISSING = object()


class Patches:
    """spec: list of (module_name, attribute, value).  Modules are fetched from sys.modules
    (tracklib's star-imports shadow sub-module attributes, so attribute access is not reliable)."""

    def __init__(self, spec):
        self.spec = list(spec)
        self.saved = None

    def __enter__(self):
        self.saved = []
        for modname, attr, val in self.spec:
            mod = sys.modules[modname] if isinstance(modname, str) else modname
            old = mod.__dict__.get(attr, _MISSING) if hasattr(mod, '__dict__') else getattr(mod, attr, _MISSING)
            self.saved.append((mod, attr, old))
            setattr(mod, attr, val)
        return self

    def __exit__(self, *exc):
        for mod, attr, old in reversed(self.saved):
            if old is _MISSING:
                try:
                    delattr(mod, attr)
                except AttributeError:
                    pass
            else:
                setattr(mod, attr, old)
        self.saved = None
        return False

    @contextlib.contextmanager
    def suspended(self):
        active = self.saved is not None
        if active:
            self.__exit__(None, None, None)
        try:
            yield
        finally:
            if active:
                self.__enter__()


class SymNumpy:
    """drop-in for `np` inside a tracklib module: tables become object arrays so they can hold proxies"""

    def __getattr__(self, n):
        return getattr(_np, n)

    @staticmethod
    def zeros(shape, dtype=None, **k):
        a = _np.empty(shape, dtype=object)
        a.fill(0.0 if dtype in (None, float, _np.float64) else 0)
        return a

    @staticmethod
    def ones(shape, dtype=None, **k):
        a = _np.empty(shape, dtype=object)
        a.fill(1.0 if dtype in (None, float, _np.float64) else 1)
        return a

    @staticmethod
    def array(obj, dtype=None, **k):
        try:
            return _np.array(obj, dtype=dtype, **k)
        except TypeError:
            return _np.array(obj, dtype=object, **k)

    @staticmethod
    def sqrt(x):
        if isinstance(x, (core.SInt, core.SReal)):
            return core.sym_sqrt(x)
        return _np.sqrt(x)

    @staticmethod
    def vectorize(f, *a, **k):
        """np.vectorize would push results through C floats: scalars go straight to the Python function,
        the result comes back as a 0-d object array (shape == ()) exactly like numpy's"""
        real = _np.vectorize(f, *a, **k)

        def g(x):
            if isinstance(x, _np.ndarray) and x.shape != ():
                return real(x)
            r = f(x.item() if isinstance(x, _np.ndarray) else x)
            out = _np.empty((), dtype=object)
            out[()] = r
            return out
        return g

    @staticmethod
    def isnan(x):
        if isinstance(x, (core.SInt, core.SReal)):
            return False
        if isinstance(x, _np.ndarray) and x.dtype == object:
            return _np.array([(isinstance(v, float) and v != v) for v in x.ravel()], dtype=bool).reshape(x.shape)
        return _np.isnan(x)

    @staticmethod
    def abs(x):
        if isinstance(x, (core.SInt, core.SReal)):
            return abs(x)
        return _np.abs(x)


def std_patches(modules, math=True, ints=True, np=False, minmax=False, math_obj=None):
    """the usual lifts for a list of tracklib module names"""
    spec = []
    m = math_obj or core.SymMath()
    for mod in modules:
        d = sys.modules[mod].__dict__
        if ints:
            spec.append((mod, 'int', core.LInt))
            spec.append((mod, 'float', core.LFloat))
        if math and 'math' in d:
            spec.append((mod, 'math', m))
        if np and 'np' in d:
            spec.append((mod, 'np', SymNumpy()))
        if minmax:
            spec.append((mod, 'min', core.sym_min))
            spec.append((mod, 'max', core.sym_max))
    return spec
