"""symx — dynamic symbolic execution of *real* Python code on z3 proxy values.

The functions under analysis are the unmodified tracklib functions.  They are
called with SInt / SReal / SBool proxies; arithmetic builds z3 terms, every
data-dependent control decision (`if`, `while`, `min`, list index, ...) asks
the solver which outcomes are feasible under the current path condition and
forks.  Exploration is exhaustive DFS over feasible paths by deterministic
re-execution with a recorded decision script.

Soundness notes (each is part of every claim made with this engine):
  * Python `float` is modelled as a mathematical real (z3 Real); NaN is modelled
    by case split on the inputs (an input is either the concrete NaN or a real).
  * `unknown` on a branch-feasibility query => both sides are explored
    (over-approximation); `unknown` on a verification query => the path is
    reported inconclusive.  Neither is ever reported as success or violation.
  * A `sat` answer to a verification query is only a *candidate*; callers replay
    it on the real code with ordinary floats before reporting a violation.
"""
import math as _math
import time
import fractions
import z3

try:
    import numpy as _np
except Exception:  # pragma: no cover
    _np = None


class Unsupported(Exception):
    """An operation the value model does not cover: the path is inconclusive."""


class _Abort(BaseException):
    """The current path is infeasible (engine control flow)."""


class _Stop(BaseException):
    """The harness asked to stop the current path (after a finding)."""


import os as _os
_DEBUG_SLOW = float(_os.environ.get('VERIF_DEBUG_SLOW', '0') or 0)
ENG = None  # the engine of the running exploration (one per process)


def engine():
    return ENG


# --------------------------------------------------------------------------
# term helpers

def _frac(x):
    n, d = x.as_integer_ratio()
    return z3.Q(n, d) if d != 1 else z3.RealVal(n)


def _z(x):
    """python / proxy value -> z3 arithmetic term"""
    if isinstance(x, (SInt, SReal)):
        return x.z
    if isinstance(x, SBool):
        return z3.If(x.b, z3.IntVal(1), z3.IntVal(0))
    if isinstance(x, bool):
        return z3.IntVal(int(x))
    if isinstance(x, int):
        return z3.IntVal(x)
    if isinstance(x, float):
        if x != x or x in (_math.inf, -_math.inf):
            raise Unsupported('non-finite constant in arithmetic')
        return _frac(x)
    if isinstance(x, fractions.Fraction):
        return z3.Q(x.numerator, x.denominator)
    if _np is not None and isinstance(x, _np.generic):
        return _z(x.item())
    raise Unsupported('cannot lift %r' % type(x))


def _r(z):
    return z3.ToReal(z) if z.sort() == z3.IntSort() else z


def _isnum(o):
    return isinstance(o, (int, float, SInt, SReal, SBool, fractions.Fraction)) or (
        _np is not None and isinstance(o, (_np.floating, _np.integer, _np.bool_)))


def is_sym(x):
    return isinstance(x, (SInt, SReal, SBool))


def zterm(x):
    """public: z3 real/int term of a python or proxy number"""
    return _z(x)


def zreal(x):
    return _r(_z(x))


def _vars(e):
    acc, seen, stack = set(), set(), [e]
    while stack:
        t = stack.pop()
        i = t.get_id()
        if i in seen:
            continue
        seen.add(i)
        if z3.is_const(t) and t.decl().kind() == z3.Z3_OP_UNINTERPRETED:
            acc.add(t.decl().name())
        else:
            stack.extend(t.children())
    return acc


def _div_denoms(e):
    acc, seen, stack = [], set(), [e]
    while stack:
        t = stack.pop()
        i = t.get_id()
        if i in seen:
            continue
        seen.add(i)
        if z3.is_app(t):
            if t.decl().kind() == z3.Z3_OP_DIV and t.num_args() == 2:
                acc.append(t.arg(1))
            stack.extend(t.children())
    return acc


def model_value(m, term):
    """evaluate a z3 term in a model -> int | Fraction | bool"""
    v = m.eval(term, model_completion=True)
    if z3.is_int_value(v):
        return v.as_long()
    if z3.is_rational_value(v):
        return fractions.Fraction(v.numerator_as_long(), v.denominator_as_long())
    if z3.is_true(v):
        return True
    if z3.is_false(v):
        return False
    if z3.is_algebraic_value(v):
        a = v.approx(30)
        return fractions.Fraction(a.numerator_as_long(), a.denominator_as_long())
    raise Unsupported('model value %r' % (v,))


# --------------------------------------------------------------------------
# engine

class Engine:
    def __init__(self, branch_timeout_ms=3000, verify_timeout_ms=10000, seed=0, sqrt_mono=False):
        self.sqrt_mono = sqrt_mono
        self.branch_timeout_ms = branch_timeout_ms
        self.verify_timeout_ms = verify_timeout_ms
        self.s = z3.Solver()
        self.s.set('timeout', branch_timeout_ms)
        self.s.set('random_seed', seed % (2 ** 30))
        self.level = 0
        self.pc = []              # path condition (list of z3 Bool terms), mirrors the solver stack
        self.script = []          # decisions taken on this path: bool or ('v', int)
        self.prefix = []
        self.pending = []
        self.nfresh = 0
        self.memo = {}            # per-path memo tables (sqrt, uninterpreted functions)
        self.inputs = {}          # name -> z3 const or concrete value, declared by the harness
        self.input_order = []
        self.stats = dict(paths=0, infeasible=0, checks=0, sat=0, unsat=0, unknown=0, solver_s=0.0,
                          forced=0, forks=0, branch_unknown=0, verify_q=0, proved=0, cex=0,
                          verify_unknown=0, sliced_proved=0, concretized=0, unsupported=0)
        self.exhaustive = True
        self.pending_left = 0
        self.id_hash = False
        # second-solver cross-check: every xcheck_every-th verification query is re-decided by cvc5 (0 = off)
        self.xcheck_every = 0
        self.xcheck_max = 40
        self.xcheck_disagreements = []
        for k in ('xc_asked', 'xc_agree', 'xc_disagree', 'xc_unknown'):
            self.stats[k] = 0
        self.swallowed_abort = False

    # ---- low level
    def _count(self, r, dt):
        st = self.stats
        st['solver_s'] += dt
        st['checks'] += 1
        st[str(r)] += 1

    def _check(self, *assumps):
        t = time.time()
        r = self.s.check(*assumps)
        self._count(r, time.time() - t)
        return r

    def _fresh_check(self, constraints, timeout_ms):
        s2 = z3.Solver()
        s2.set('timeout', timeout_ms)
        for c in constraints:
            s2.add(c)
        t = time.time()
        r = s2.check()
        self._count(r, time.time() - t)
        if _DEBUG_SLOW and time.time() - t > _DEBUG_SLOW:
            import sys as _sys
            print('SLOW %.1fs %s: %s' % (time.time() - t, r, str(constraints[-1])[:300].replace('\n', ' ')), file=_sys.stderr)
        return r, s2

    def _push(self, c):
        self.s.push()
        self.level += 1
        self.s.add(c)
        self.pc.append(c)

    def abort(self):
        self.swallowed_abort = True
        raise _Abort()

    def fresh_real(self, name='r'):
        self.nfresh += 1
        return z3.Real('%s!%d' % (name, self.nfresh))

    def fresh_int(self, name='i'):
        self.nfresh += 1
        return z3.Int('%s!%d' % (name, self.nfresh))

    def fresh_bool(self, name='b'):
        self.nfresh += 1
        return z3.Bool('%s!%d' % (name, self.nfresh))

    # ---- declaring inputs
    def real(self, name, lo=None, hi=None):
        v = z3.Real(name)
        self.inputs[name] = v
        if name not in self.input_order:
            self.input_order.append(name)
        cs = []
        if lo is not None:
            cs.append(v >= _z(lo))
        if hi is not None:
            cs.append(v <= _z(hi))
        if cs:
            self.assume(z3.And(cs))
        return SReal(v)

    def int(self, name, lo=None, hi=None):
        v = z3.Int(name)
        self.inputs[name] = v
        if name not in self.input_order:
            self.input_order.append(name)
        cs = []
        if lo is not None:
            cs.append(v >= lo)
        if hi is not None:
            cs.append(v <= hi)
        if cs:
            self.assume(z3.And(cs))
        return SInt(v)

    def real_or_nan(self, name, lo=None, hi=None):
        """an input that is either the concrete NaN or an arbitrary real (case split)"""
        flag = z3.Bool(name + '?nan')
        if self.branch(flag):
            self.inputs[name] = float('nan')
            if name not in self.input_order:
                self.input_order.append(name)
            return float('nan')
        return self.real(name, lo, hi)

    def choice(self, name, n):
        """a symbolic selector 0..n-1 that is immediately case split (enumerated as paths)"""
        v = self.int(name, 0, n - 1)
        return int(v.__index__())

    # ---- path condition
    def assume(self, c, check=True):
        """add a constraint to the path.  check=True (harness-level assumptions): an assumption that makes the
        path condition unsatisfiable ends the path (otherwise every later decision would be vacuously 'forced').
        check=False is for definitional constraints on fresh variables, which cannot make the path infeasible."""
        c = c.b if isinstance(c, SBool) else c
        if c is True:
            return
        if c is False or self.swallowed_abort:
            self.abort()
        self._push(c)
        if check and len(self.script) >= len(self.prefix):
            if self._check() == z3.unsat:
                self.abort()

    def feasible(self, cond):
        """is pc /\\ cond satisfiable?  returns 'sat' | 'unsat' | 'unknown'"""
        r = self._check(cond)
        if r == z3.unknown:
            # context-free pre-check: unsat alone => unsat under any path condition
            r0, _ = self._fresh_check([cond], 2000)
            if r0 == z3.unsat:
                return 'unsat'
            # cone-of-influence slice with a fresh (non-incremental) solver
            r1, _ = self._fresh_check(self._slice(cond) + [cond], self.branch_timeout_ms)
            if r1 == z3.unsat:
                return 'unsat'
            self.stats['branch_unknown'] += 1
            return 'unknown'
        return str(r)

    def branch(self, cond):
        """fork on a z3 Bool; returns the python bool taken on this path"""
        if self.swallowed_abort:
            self.abort()
        i = len(self.script)
        if i < len(self.prefix):
            taken = self.prefix[i]
            if not isinstance(taken, bool):
                raise RuntimeError('replay divergence: expected a branch decision, script has %r' % (taken,))
        else:
            rt = self.feasible(cond)
            rf = self.feasible(z3.Not(cond)) if rt != 'unsat' else 'sat'
            if rt == 'unsat' and rf == 'unsat':
                self.abort()
            if rt == 'unsat':
                self.stats['forced'] += 1
                taken = False
            elif rf == 'unsat':
                self.stats['forced'] += 1
                taken = True
            else:
                self.stats['forks'] += 1
                self.pending.append(self.script + [False])
                taken = True
        self.script.append(taken)
        self._push(cond if taken else z3.Not(cond))
        return taken

    def concretize(self, z):
        """enumerate the feasible values of an Int term as separate paths; returns a python int"""
        zs = z3.simplify(z)
        if z3.is_int_value(zs):
            return zs.as_long()
        self.stats['concretized'] += 1
        for _ in range(100000):
            i = len(self.script)
            if i < len(self.prefix):
                ent = self.prefix[i]
                if isinstance(ent, bool):
                    raise RuntimeError('replay divergence: expected a value, script has a decision')
            else:
                ent = ('v', self._min_feasible(z))
            self.script.append(ent)
            if self.branch(z == ent[1]):
                return ent[1]
        raise Unsupported('unbounded concretisation')

    def _min_feasible(self, z):
        r = self._check()
        if r != z3.sat:
            if r == z3.unsat:
                self.abort()
            raise Unsupported('cannot concretise: solver unknown')
        v = model_value(self.s.model(), z)
        for _ in range(64):  # descend to the smallest feasible value (deterministic choice)
            r = self._check(z < v)
            if r != z3.sat:
                break
            v = model_value(self.s.model(), z)
        return v

    # ---- verification queries
    def _slice(self, goal):
        av = [(a, _vars(a)) for a in self.pc]
        cone = set(_vars(goal))
        chosen = [False] * len(av)
        changed = True
        while changed:
            changed = False
            for i, (a, vs) in enumerate(av):
                if not chosen[i] and (vs & cone):
                    chosen[i] = True
                    cone |= vs
                    changed = True
        return [a for i, (a, vs) in enumerate(av) if chosen[i]]

    def valid(self, cond, timeout_ms=None):
        """decide pc => cond.  returns ('proved', None) | ('cex', model) | ('unknown', None)"""
        c = cond.b if isinstance(cond, SBool) else cond
        if c is True:
            return 'proved', None
        if c is False:
            c = z3.BoolVal(False)
        self.stats['verify_q'] += 1
        timeout_ms = timeout_ms or self.verify_timeout_ms
        goal = z3.Not(c)
        sl = self._slice(goal)
        r, s2 = self._fresh_check(sl + [goal], timeout_ms)
        if self.xcheck_every and r != z3.unknown and (self.stats['verify_q'] - 1) % self.xcheck_every == 0 and self.stats['xc_asked'] < self.xcheck_max:
            self._cvc5_crosscheck(sl + [goal], str(r))
        if r == z3.unsat:
            self.stats['proved'] += 1
            if len(sl) < len(self.pc):
                self.stats['sliced_proved'] += 1
            return 'proved', None
        if len(sl) < len(self.pc) or r == z3.unknown:
            if len(sl) < len(self.pc):
                r, s2 = self._fresh_check(self.pc + [goal], timeout_ms)
            if r == z3.unknown:
                # last resort: the incremental solver (different arithmetic core)
                t = time.time()
                self.s.set('timeout', timeout_ms)
                r = self.s.check(goal)
                self.s.set('timeout', self.branch_timeout_ms)
                self._count(r, time.time() - t)
                s2 = self.s
        if r == z3.unsat:
            self.stats['proved'] += 1
            return 'proved', None
        if r == z3.sat:
            self.stats['cex'] += 1
            return 'cex', s2.model()
        self.stats['verify_unknown'] += 1
        return 'unknown', None

    def _cvc5_crosscheck(self, constraints, z3_answer, timeout_ms=5000):
        """re-decide a verification query (exported as SMT-LIB by z3) with cvc5; a sat/unsat disagreement is a harness error"""
        try:
            import cvc5
        except Exception:
            return
        self.stats['xc_asked'] += 1
        try:
            sx = z3.Solver()
            for c in constraints:
                sx.add(c)
            txt = sx.to_smt2()
            slv = cvc5.Solver()
            slv.setOption('tlimit-per', str(timeout_ms))
            slv.setLogic('ALL')
            prs = cvc5.InputParser(slv)
            prs.setStringInput(cvc5.InputLanguage.SMT_LIB_2_6, txt, 'symx-query')
            sm = prs.getSymbolManager()
            ans = 'unknown'
            while True:
                cmd = prs.nextCommand()
                if cmd.isNull():
                    break
                out = str(cmd.invoke(slv, sm)).strip()
                if out in ('sat', 'unsat', 'unknown'):
                    ans = out
        except Exception as e:
            ans = 'unknown'
        if ans == 'unknown':
            self.stats['xc_unknown'] += 1
        elif ans == z3_answer:
            self.stats['xc_agree'] += 1
        else:
            self.stats['xc_disagree'] += 1
            self.xcheck_disagreements.append(dict(z3=z3_answer, cvc5=ans, query=str(constraints[-1])[:400]))

    def path_model(self, extra=()):
        """a model of the current path condition (None if not obtainable)"""
        r = self._check(*extra)
        if r == z3.sat:
            return self.s.model()
        r, s2 = self._fresh_check(self.pc + list(extra), self.verify_timeout_ms)
        if r == z3.sat:
            return s2.model()
        return None

    def input_values(self, m):
        """concrete python values of the declared inputs under model m"""
        out = {}
        for name in self.input_order:
            v = self.inputs[name]
            if isinstance(v, float):
                out[name] = v
            else:
                out[name] = model_value(m, v)
        return out

    nice_timeout_ms = 1500

    def nice_model(self, goal_extra=(), denominators=(1, 2, 8, 1024)):
        """try to find a model of pc /\\ goal_extra whose real inputs are dyadic rationals
        (exactly representable doubles), so that ties and borders survive replay.
        1. round an arbitrary model to k/d and ask whether the rounded inputs still satisfy everything (cheap: inputs fixed);
        2. otherwise ask the solver for a model with v*d integral (finds ties / borders; gives up on the first unknown)."""
        reals = [v for v in self.inputs.values() if not isinstance(v, float) and v.sort() == z3.RealSort()]
        ints = [v for v in self.inputs.values() if not isinstance(v, float) and v.sort() == z3.IntSort()]
        base = self.pc + list(goal_extra)
        if not reals:
            m = self.path_model(goal_extra)
            return m if (m is not None and self._model_ok(m, base)) else None
        m0 = self.path_model(goal_extra)
        if m0 is not None:
            try:
                vals = [(v, model_value(m0, v)) for v in reals]
                ifix = [v == m0.eval(v, model_completion=True) for v in ints]
                for d in denominators:
                    fix = [v == z3.Q(int(round(x * d)), d) for v, x in vals]
                    r, s2 = self._fresh_check(base + fix + ifix, 1000)
                    if r == z3.sat:
                        m = s2.model()
                        if self._model_ok(m, base):
                            return m
            except Exception:
                pass
        for d in denominators:
            cs = []
            for v in reals:
                k = z3.Int('dy!' + v.decl().name())
                cs.append(v * d == z3.ToReal(k))
            r, s2 = self._fresh_check(base + cs, self.nice_timeout_ms)
            if r == z3.sat:
                m = s2.model()
                if self._model_ok(m, base):
                    return m
            elif r == z3.unknown:
                break
        return None

    @staticmethod
    def _model_ok(m, constraints):
        """defensive: a model handed to the replay / validation must make every constraint evaluate to true
        (division by zero is uninterpreted in z3, so a 'model' may otherwise rely on x/0 taking a convenient value)"""
        try:
            for c in constraints:
                zero_div = [t for t in _div_denoms(c) if model_value(m, t) == 0]
                if zero_div or not z3.is_true(m.eval(c, model_completion=True)):
                    return False
        except Exception:
            return False
        return True

    # ---- exploration
    def explore(self, fn, max_paths=10 ** 9, deadline=None):
        """run fn(engine) once per feasible path.  returns the list of fn's results."""
        global ENG
        ENG = self
        results = []
        self.pending = [[]]
        while self.pending:
            if self.stats['paths'] >= max_paths or (deadline is not None and time.time() > deadline):
                self.exhaustive = False
                break
            self.prefix = self.pending.pop()
            while self.level > 0:
                self.s.pop()
                self.level -= 1
            self.pc = []
            self.script = []
            self.memo = {}
            self.nfresh = 0
            self.inputs = {}
            self.input_order = []
            self.swallowed_abort = False
            try:
                r = fn(self)
                if self.swallowed_abort:
                    self.stats['infeasible'] += 1
                    continue
                results.append(r)
                self.stats['paths'] += 1
            except _Abort:
                self.stats['infeasible'] += 1
            except _Stop as e:
                results.append(e.args[0] if e.args else None)
                self.stats['paths'] += 1
        self.pending_left = len(self.pending)
        return results


# --------------------------------------------------------------------------
# proxies

class SBool:
    __slots__ = ('b',)

    def __init__(self, b):
        self.b = b

    def __bool__(self):
        b = z3.simplify(self.b)
        if z3.is_true(b):
            return True
        if z3.is_false(b):
            return False
        return ENG.branch(b)

    def _o(self, o):
        if isinstance(o, SBool):
            return o.b
        if isinstance(o, (bool, int)) or (_np is not None and isinstance(o, _np.bool_)):
            return z3.BoolVal(bool(o))
        return None

    def __and__(self, o):
        ob = self._o(o)
        return NotImplemented if ob is None else SBool(z3.And(self.b, ob))
    __rand__ = __and__

    def __or__(self, o):
        ob = self._o(o)
        return NotImplemented if ob is None else SBool(z3.Or(self.b, ob))
    __ror__ = __or__

    def __xor__(self, o):
        ob = self._o(o)
        return NotImplemented if ob is None else SBool(z3.Xor(self.b, ob))
    __rxor__ = __xor__

    def __invert__(self):
        return SBool(z3.Not(self.b))

    def _num(self):
        return 1 if bool(self) else 0

    def __mul__(self, o): return self._num() * o
    __rmul__ = __mul__
    def __add__(self, o): return self._num() + o
    __radd__ = __add__
    def __sub__(self, o): return self._num() - o
    def __rsub__(self, o): return o - self._num()
    def __neg__(self): return -self._num()
    def __truediv__(self, o): return self._num() / o
    def __rtruediv__(self, o): return o / self._num()
    def __floordiv__(self, o): return self._num() // o
    def __rfloordiv__(self, o): return o // self._num()
    def __mod__(self, o): return self._num() % o
    def __rmod__(self, o): return o % self._num()
    def __pow__(self, o): return self._num() ** o
    def __rpow__(self, o): return o ** self._num()
    def __abs__(self): return self._num()
    def __pos__(self): return self._num()
    def __index__(self): return self._num()
    def __int__(self): return self._num()
    def __float__(self): return float(self._num())
    def __lt__(self, o): return self._num() < o
    def __gt__(self, o): return self._num() > o
    def __le__(self, o): return self._num() <= o
    def __ge__(self, o): return self._num() >= o

    def __eq__(self, o):
        ob = self._o(o)
        if ob is None:
            if _isnum(o):
                return self._num() == o
            return False
        return SBool(self.b == ob)

    def __ne__(self, o):
        r = self.__eq__(o)
        return ~r if isinstance(r, SBool) else (not r)

    __hash__ = None

    def __repr__(self):
        return '<SBool>'
    __str__ = __repr__

    def __format__(self, spec):
        return '<SBool>'

    def __deepcopy__(self, memo):
        return self

    def __copy__(self):
        return self


class _SNum:
    __slots__ = ('z',)
    __hash__ = None

    @staticmethod
    def _wrap(z):
        return SInt(z) if z.sort() == z3.IntSort() else SReal(z)

    @staticmethod
    def _coerce(a, b):
        if a.sort() != b.sort():
            return _r(a), _r(b)
        return a, b

    def _bin(self, o, f, rev=False):
        if isinstance(o, float):
            if o != o:
                return o
            if o in (_math.inf, -_math.inf):
                return self._inf_arith(o, f, rev)
        if not _isnum(o):
            return NotImplemented
        a, b = self._coerce(self.z, _z(o))
        if isinstance(o, float) or (_np is not None and isinstance(o, _np.floating)):
            a, b = _r(a), _r(b)   # int (+) float is a float in Python
        return self._wrap(f(b, a) if rev else f(a, b))

    def _inf_arith(self, o, f, rev):
        # only the cases whose result does not depend on the symbolic operand's value
        if f is _add:
            return o
        if f is _sub:
            return o if rev else -o
        raise Unsupported('arithmetic with inf')

    def __add__(self, o): return self._bin(o, _add)
    def __radd__(self, o): return self._bin(o, _add, True)
    def __sub__(self, o): return self._bin(o, _sub)
    def __rsub__(self, o): return self._bin(o, _sub, True)
    def __mul__(self, o): return self._bin(o, _mul)
    def __rmul__(self, o): return self._bin(o, _mul, True)
    def __neg__(self): return self._wrap(-self.z)
    def __pos__(self): return self
    def __abs__(self): return self._wrap(z3.If(self.z >= 0, self.z, -self.z))

    @staticmethod
    def _div(a, b):
        bs = z3.simplify(b)
        if z3.is_rational_value(bs) or z3.is_int_value(bs):
            if model_value_const(bs) == 0:
                raise ZeroDivisionError('division by zero')
        elif bool(SBool(b == 0)):
            raise ZeroDivisionError('division by zero (symbolic divisor)')
        return SReal(_r(a) / _r(b))

    def __truediv__(self, o):
        if isinstance(o, float):
            if o != o:
                return o
            if o in (_math.inf, -_math.inf):
                return 0.0
        if not _isnum(o):
            return NotImplemented
        return self._div(self.z, _z(o))

    def __rtruediv__(self, o):
        if isinstance(o, float) and o != o:
            return o
        if not _isnum(o):
            return NotImplemented
        if isinstance(o, float) and o in (_math.inf, -_math.inf):
            raise Unsupported('inf / symbolic')
        return self._div(_z(o), self.z)

    def __pow__(self, n, mod=None):
        if mod is not None:
            raise Unsupported('3-arg pow')
        if isinstance(n, (SInt, SReal)):
            ns = z3.simplify(n.z)
            if z3.is_int_value(ns) or z3.is_rational_value(ns):
                n = model_value_const(ns)
                if isinstance(n, fractions.Fraction):
                    n = float(n)
            else:
                raise Unsupported('symbolic exponent')
        if _np is not None and isinstance(n, _np.generic):
            n = n.item()
        if isinstance(n, float) and n == int(n) and abs(n) <= 8:
            r = self.__pow__(int(n))
            return r if isinstance(r, SReal) or not isinstance(r, SInt) else SReal(_r(r.z))
        if isinstance(n, int) and 0 <= n <= 8:
            r = 1
            for _ in range(n):
                r = r * self
            return r
        if isinstance(n, int) and -8 <= n < 0:
            return 1 / self.__pow__(-n)
        if n == 0.5:
            return sym_sqrt(self)
        raise Unsupported('pow %r' % (n,))

    def __rpow__(self, o):
        zs = z3.simplify(self.z)
        if z3.is_int_value(zs) or z3.is_rational_value(zs):
            return o ** float(model_value_const(zs))
        raise Unsupported('symbolic exponent')

    def _cmp(self, o, f):
        if isinstance(o, float):
            if o != o:
                return f is _ne
            if o == _math.inf:
                return f in (_lt, _le, _ne)
            if o == -_math.inf:
                return f in (_gt, _ge, _ne)
        if not _isnum(o):
            return NotImplemented
        a, b = self._coerce(self.z, _z(o))
        return SBool(f(a, b))

    def __lt__(self, o): return self._cmp(o, _lt)
    def __le__(self, o): return self._cmp(o, _le)
    def __gt__(self, o): return self._cmp(o, _gt)
    def __ge__(self, o): return self._cmp(o, _ge)

    def __eq__(self, o):
        if not _isnum(o):
            return False
        return self._cmp(o, _eq)

    def __ne__(self, o):
        if not _isnum(o):
            return True
        return self._cmp(o, _ne)

    def __bool__(self):
        return bool(SBool(self.z != 0))

    def __floor__(self):
        return self if isinstance(self, SInt) else SInt(z3.ToInt(self.z))

    def __ceil__(self):
        return self if isinstance(self, SInt) else SInt(-z3.ToInt(-self.z))

    def __trunc__(self):
        return sym_int(self)

    def __round__(self, nd=None):
        if isinstance(self, SInt):
            return self
        if nd is None or nd == 0:
            # round-half-even on exact halves is not modelled: halves are excluded by a fork
            fl = z3.ToInt(self.z)
            frac = self.z - z3.ToReal(fl)
            if bool(SBool(frac == z3.Q(1, 2))):
                raise Unsupported('round() at an exact half')
            r = SInt(z3.If(frac < z3.Q(1, 2), fl, fl + 1))
            return r if nd is None else SReal(_r(r.z))
        raise Unsupported('round(x, %r)' % (nd,))

    def __repr__(self):
        return '<sym>'
    __str__ = __repr__

    def __format__(self, spec):
        return '<sym>'

    def concretize(self):
        return ENG.concretize(self.z)

    def __deepcopy__(self, memo):     # proxies are immutable values
        return self

    def __copy__(self):
        return self


def _add(a, b): return a + b
def _sub(a, b): return a - b
def _mul(a, b): return a * b
def _lt(a, b): return a < b
def _le(a, b): return a <= b
def _gt(a, b): return a > b
def _ge(a, b): return a >= b
def _eq(a, b): return a == b
def _ne(a, b): return a != b


def model_value_const(v):
    if z3.is_int_value(v):
        return v.as_long()
    return fractions.Fraction(v.numerator_as_long(), v.denominator_as_long())


class SInt(_SNum):
    __slots__ = ()

    def __init__(self, z):
        self.z = z

    def __index__(self):
        return ENG.concretize(self.z)

    def _divmod(self, a, b):
        bs = z3.simplify(b)
        if z3.is_int_value(bs):
            bv = bs.as_long()
            if bv == 0:
                raise ZeroDivisionError('integer division or modulo by zero')
            if bv > 0:
                return a / bs, a % bs
        elif bool(SBool(b == 0)):
            raise ZeroDivisionError('integer division or modulo by zero')
        q = ENG.fresh_int('q')
        r = ENG.fresh_int('m')
        ENG.assume(z3.And(a == q * b + r, z3.If(b > 0, z3.And(r >= 0, r < b), z3.And(r <= 0, r > b))), check=False)
        return q, r

    def __floordiv__(self, o):
        if isinstance(o, (float, SReal)) or not _isnum(o):
            return SReal(_r(self.z)).__floordiv__(o)
        return SInt(self._divmod(self.z, _z(o))[0])

    def __rfloordiv__(self, o):
        if isinstance(o, float) or not _isnum(o):
            return NotImplemented
        return SInt(self._divmod(_z(o), self.z)[0])

    def __mod__(self, o):
        if isinstance(o, (float, SReal)) or not _isnum(o):
            return SReal(_r(self.z)).__mod__(o)
        return SInt(self._divmod(self.z, _z(o))[1])

    def __rmod__(self, o):
        if isinstance(o, float) or not _isnum(o):
            return NotImplemented
        return SInt(self._divmod(_z(o), self.z)[1])

    def __divmod__(self, o):
        return self // o, self % o

    def is_integer(self):
        return True


class SReal(_SNum):
    __slots__ = ()

    def __init__(self, z):
        self.z = z

    def is_integer(self):
        return SBool(z3.IsInt(self.z))

    def __floordiv__(self, o):
        if not _isnum(o):
            return NotImplemented
        q = self / o
        return SReal(z3.ToReal(z3.ToInt(q.z)))

    def __rfloordiv__(self, o):
        if not _isnum(o):
            return NotImplemented
        q = o / self
        return SReal(z3.ToReal(z3.ToInt(q.z)))

    def __mod__(self, o):
        if not _isnum(o):
            return NotImplemented
        q = self / o
        return self - o * SReal(z3.ToReal(z3.ToInt(q.z)))

    def __index__(self):
        raise TypeError("'float' object cannot be interpreted as an integer (symbolic real)")


def _hash_concretized(self):
    """hashing a symbolic integer (set member, dict key) case-splits it like using it as an index: the path continues with its smallest feasible value"""
    return hash(ENG.concretize(self.z))


def set_identity_hash(on):
    h = (lambda self: id(self)) if on else None
    _SNum.__hash__ = h
    SInt.__hash__ = h if on else _hash_concretized
    SReal.__hash__ = h
    SBool.__hash__ = h


SInt.__hash__ = _hash_concretized


# --------------------------------------------------------------------------
# lifted builtins

def sym_int(x, *a):
    if isinstance(x, SInt):
        return x
    if isinstance(x, SReal):
        return SInt(z3.If(x.z >= 0, z3.ToInt(x.z), -z3.ToInt(-x.z)))
    if isinstance(x, SBool):
        return x._num()
    if isinstance(x, float) and x != x:
        raise ValueError('cannot convert float NaN to integer')
    return int(x, *a)


def sym_float(x=0.0):
    if _np is not None and isinstance(x, _np.ndarray) and x.dtype == object and x.shape == ():
        x = x.item()
    if isinstance(x, SReal):
        return x
    if isinstance(x, SInt):
        return SReal(z3.ToReal(x.z))
    if isinstance(x, SBool):
        return float(x._num())
    return float(x)


def sym_abs(x):
    return abs(x)


def sym_abs_term(x):
    """abs as an If-term (proxies already implement __abs__ that way); plain numbers go to the builtin"""
    return abs(x)


def _context_free_unsat(c):
    s0 = z3.Solver()
    s0.set('timeout', 2000)
    s0.add(c)
    return s0.check() == z3.unsat


def sym_sqrt(x):
    if not isinstance(x, (SInt, SReal)):
        return _math.sqrt(x)
    sz = z3.simplify(x.z)
    if z3.is_rational_value(sz) or z3.is_int_value(sz):
        return _math.sqrt(float(model_value_const(sz)))
    key = ('sqrt', sz.get_id())
    if key in ENG.memo:
        return ENG.memo[key][1]
    neg = x.z < 0
    if not _context_free_unsat(neg):
        if bool(SBool(neg)):
            raise ValueError('math domain error')
    r = ENG.fresh_real('sqrt')
    xz = _r(x.z)
    cs = [r >= 0, r * r == xz]
    # redundant (implied) monotonicity facts against the square roots already taken on this path: they let the solver
    # decide comparisons between two roots from the comparison of their arguments
    prev = ENG.memo.setdefault('sqrt!all', [])
    for (xj, rj) in (prev[-6:] if ENG.sqrt_mono else []):
        cs.append((xz <= xj) == (r <= rj))
    prev.append((xz, r))
    ENG.assume(z3.And(cs), check=False)
    out = SReal(r)
    ENG.memo[key] = (sz, out)   # keep the term alive so that ids stay unique
    return out


def sym_ufun(name, x, axioms=None):
    """uninterpreted real function realised by memoisation: same argument term => same fresh variable"""
    sz = z3.simplify(_r(_z(x)))
    key = (name, sz.get_id())
    if key in ENG.memo:
        return ENG.memo[key][1]
    # an argument provably equal (under the path condition) to an earlier one gets the very same variable.
    # The outcome is recorded in the decision script so that re-execution of a prefix cannot diverge on a solver timeout.
    prevs = ENG.memo.get('ufun!' + name, [])
    if prevs:
        pos = len(ENG.script)
        if pos < len(ENG.prefix):
            ent = ENG.prefix[pos]
            if not (isinstance(ent, tuple) and ent[0] == 'u'):
                raise RuntimeError('replay divergence: expected a function-congruence entry, script has %r' % (ent,))
        else:
            hit = -1
            base = max(0, len(prevs) - 8)
            for k in range(base, len(prevs)):
                aj = prevs[k][0]
                ENG.s.set('timeout', 400)
                t0 = time.time()
                rr = ENG.s.check(sz != aj)
                ENG._count(rr, time.time() - t0)
                ENG.s.set('timeout', ENG.branch_timeout_ms)
                if rr == z3.unsat:
                    hit = k
                    break
            ent = ('u', hit)
        ENG.script.append(ent)
        if ent[1] >= 0:
            out = SReal(prevs[ent[1]][1])
            ENG.memo[key] = (sz, out)
            return out
    r = ENG.fresh_real(name)
    out = SReal(r)
    ENG.memo[key] = (sz, out)
    # functional consistency with the earlier applications of the same function on this path (equal arguments => equal values):
    # implied by 'it is a function', so adding it assumes nothing
    prev = ENG.memo.setdefault('ufun!' + name, [])
    for (aj, rj) in prev[-8:]:
        ENG.assume(z3.Implies(sz == aj, r == rj), check=False)
    prev.append((sz, r))
    if axioms is not None:
        for c in axioms(SReal(sz), out):
            ENG.assume(c)
    return out


class LiftMeta(type):
    def __instancecheck__(cls, o):
        return isinstance(o, cls._base) or isinstance(o, cls._sym)

    def __call__(cls, *a, **k):
        return cls._conv(*a, **k)


class LInt(int, metaclass=LiftMeta):
    _base = int
    _sym = SInt
    _conv = staticmethod(sym_int)


class LFloat(float, metaclass=LiftMeta):
    _base = float
    _sym = SReal
    _conv = staticmethod(sym_float)


class SymMath:
    """drop-in for the `math` module inside tracklib modules"""

    def __init__(self, ufun_axioms=None):
        self._ax = ufun_axioms or {}

    def __getattr__(self, n):
        return getattr(_math, n)

    @staticmethod
    def sqrt(x):
        return sym_sqrt(x)

    @staticmethod
    def fabs(x):
        return abs(x) if isinstance(x, (SInt, SReal)) else _math.fabs(x)

    @staticmethod
    def floor(x):
        return x.__floor__() if isinstance(x, (SInt, SReal)) else _math.floor(x)

    @staticmethod
    def ceil(x):
        return x.__ceil__() if isinstance(x, (SInt, SReal)) else _math.ceil(x)

    @staticmethod
    def isnan(x):
        return False if isinstance(x, (SInt, SReal)) else _math.isnan(x)

    @staticmethod
    def isinf(x):
        return False if isinstance(x, (SInt, SReal)) else _math.isinf(x)

    @staticmethod
    def pow(x, n):
        if isinstance(x, (SInt, SReal)) or isinstance(n, (SInt, SReal)):
            return sym_float(x) ** n if isinstance(x, (SInt, SReal)) else x ** n
        return _math.pow(x, n)

    def _u(self, name, x):
        if not isinstance(x, (SInt, SReal)):
            return getattr(_math, name)(x)
        return sym_ufun(name, x, self._ax.get(name))

    def exp(self, x): return self._u('exp', x)
    def log(self, x, *a):
        if a:
            raise Unsupported('log with base')
        if isinstance(x, (SInt, SReal)):
            if bool(x <= 0):
                raise ValueError('math domain error')
        return self._u('log', x)
    def sin(self, x): return self._u('sin', x)
    def cos(self, x): return self._u('cos', x)
    def tan(self, x): return self._u('tan', x)
    def atan(self, x): return self._u('atan', x)
    def asin(self, x): return self._u('asin', x)
    def acos(self, x): return self._u('acos', x)

    def atan2(self, y, x):
        if not (isinstance(x, (SInt, SReal)) or isinstance(y, (SInt, SReal))):
            return _math.atan2(y, x)
        ys, xs = z3.simplify(_r(_z(y))), z3.simplify(_r(_z(x)))
        key = ('atan2', ys.get_id(), xs.get_id())
        if key in ENG.memo:
            return ENG.memo[key][2]
        out = SReal(ENG.fresh_real('atan2'))
        ENG.memo[key] = (ys, xs, out)
        return out


def sym_min(*a, **k):
    """fork-free min (merges the paths of `min` where the property does not depend on which operand won)"""
    if k or len(a) == 1:
        a = tuple(a[0]) if len(a) == 1 else a
    if not any(isinstance(x, (SInt, SReal)) for x in a):
        return min(a)
    r = a[0]
    for x in a[1:]:
        rz, xz = _SNum._coerce(_z(r), _z(x))
        r = _SNum._wrap(z3.If(xz < rz, xz, rz))
    return r


def sym_max(*a, **k):
    if k or len(a) == 1:
        a = tuple(a[0]) if len(a) == 1 else a
    if not any(isinstance(x, (SInt, SReal)) for x in a):
        return max(a)
    r = a[0]
    for x in a[1:]:
        rz, xz = _SNum._coerce(_z(r), _z(x))
        r = _SNum._wrap(z3.If(xz > rz, xz, rz))
    return r
