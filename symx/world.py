"""Per-path isolation of the library's process-wide state.

Every explored path re-executes the harness from scratch, but module globals, class attributes, mutable default arguments and
memoisation caches of the code under analysis live as long as the worker process.  Left alone, state written on one path (a cache
entry, a patched table, a print format) leaks into the next path or job: findings then depend on the exploration order, do not
reproduce in a fresh replay process, and stale symbolic terms can even reach the solver.  `World.snapshot()` records that state once
(right after the worker is forked, before any job ran) and `World.restore()` puts it back before each path, so that leftover-state
behaviour is only ever observed through the histories a harness performs *inside* one path - which is how a user would see it."""
import copy
import sys
import types

_SKIP_TYPES = (types.ModuleType, types.FunctionType, types.BuiltinFunctionType, types.MethodType, type, property, staticmethod, classmethod)
_CONTAINERS = (list, dict, set)


def _data_attrs(owner):
    d = owner.__dict__
    for name in list(d):
        if name.startswith('__') and name.endswith('__'):
            continue
        v = d[name]
        if isinstance(v, _SKIP_TYPES) or callable(v) and not isinstance(v, _CONTAINERS):
            continue
        yield name, v


class World:
    def __init__(self, prefix='tracklib'):
        self.prefix = prefix
        self.slots = []        # (owner, name, original object, pristine deep copy or None)
        self.names = {}        # owner -> set of attribute names present at snapshot time
        self.defaults = []     # (function, index, original object, pristine copy)
        self.caches = []       # objects with cache_clear()
        self.taken = False

    def _owners(self):
        for mname, mod in list(sys.modules.items()):
            if mod is None or not (mname == self.prefix or mname.startswith(self.prefix + '.')):
                continue
            yield mod
            for v in list(vars(mod).values()):
                if isinstance(v, type) and getattr(v, '__module__', '').startswith(self.prefix):
                    yield v

    def snapshot(self):
        seen = set()
        for owner in self._owners():
            if id(owner) in seen:
                continue
            seen.add(id(owner))
            self.names[owner] = set(owner.__dict__)
            for name, v in _data_attrs(owner):
                pristine = None
                if isinstance(v, _CONTAINERS):
                    try:
                        pristine = copy.deepcopy(v)
                    except Exception:
                        continue
                self.slots.append((owner, name, v, pristine))
            for f in list(vars(owner).values()):
                f = getattr(f, '__func__', f)
                if hasattr(f, 'cache_clear'):
                    self.caches.append(f)
                if isinstance(f, types.FunctionType):
                    for holder in (f.__defaults__ or ()), tuple((f.__kwdefaults__ or {}).values()):
                        for dv in holder:
                            if isinstance(dv, _CONTAINERS):
                                try:
                                    self.defaults.append((dv, copy.deepcopy(dv)))
                                except Exception:
                                    pass
        self.taken = True

    @staticmethod
    def _refill(obj, pristine):
        fresh = copy.deepcopy(pristine)
        if isinstance(obj, list):
            obj[:] = fresh
        else:
            obj.clear()
            obj.update(fresh)

    @staticmethod
    def _same(a, b):
        try:
            return bool(a == b)
        except Exception:
            return False

    def restore(self):
        if not self.taken:
            return
        for owner, name, orig, pristine in self.slots:
            try:
                if owner.__dict__.get(name, None) is not orig:
                    setattr(owner, name, orig)
                if pristine is not None and not self._same(orig, pristine):
                    self._refill(orig, pristine)
            except Exception:
                pass
        for owner, names in self.names.items():
            for extra in [n for n in list(owner.__dict__) if n not in names and not (n.startswith('__') and n.endswith('__'))]:
                v = owner.__dict__[extra]
                if isinstance(v, _SKIP_TYPES) and not hasattr(v, 'cache_clear'):
                    continue
                try:
                    delattr(owner, extra)
                except Exception:
                    pass
        for dv, pristine in self.defaults:
            if not self._same(dv, pristine):
                try:
                    self._refill(dv, pristine)
                except Exception:
                    pass
        for f in self.caches:
            try:
                f.cache_clear()
            except Exception:
                pass


WORLD = World()
