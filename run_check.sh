#!/bin/sh
# usage: ./run_check.sh C03 [--tier quick|thorough] [--replay file]
HERE="$(cd "$(dirname "$0")" && pwd)"
"$HERE/bootstrap.sh" >&2 || { echo "bootstrap failed" >&2; exit 2; }
export PYTHONDONTWRITEBYTECODE=1 PYTHONUTF8=1 MPLBACKEND=Agg PYTHONWARNINGS=ignore PYTHONHASHSEED=0
cd "$HERE" && exec "$HERE/.venv/bin/python" "$HERE/run_check.py" "$@"
