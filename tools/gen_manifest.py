#!/usr/bin/env python3
"""Regenerates /verif/MANIFEST.json from the table below (keeps it schema-valid at all times)."""
import json, os, sys
HERE = os.path.dirname(os.path.dirname(os.path.abspath(__file__)))

TECH = ('symbolic execution of the real tracklib functions on z3 proxy values (symx): exhaustive DFS over feasible paths '
        'inside stated bounds, property asserted per path as pc /\\ not(assertion) to z3; sat models replayed on the real code')
NOTE = ('floats modelled as reals; bounds, stubs and excluded sub-claims are listed in the evidence file (coverage.bounds / stubs / '
        'outside_claim) and in DESIGN.md; inconclusive (solver-unknown) paths are counted, never reported as success; '
        'beyond the small exhaustive bounds each check runs scale probes and value-kind / aliasing / leftover-state probes (concrete skeleton, a few symbolic values; DESIGN.md 9.1, 9.2) '
        'and judges one concrete run of the real code per explored path with its concrete oracle (reported only if a second model of the path agrees; DESIGN.md 10)')

# id -> (level text, design ref, extra note, technique suffix)
CLAIMED = {
    'C03': ('Bounded model checking of readUnixTime/toAbsTime/comparisons/addX on symbolic integer-millisecond instants: every '
            'execution path for every instant of every year in the range is decided against a closed-form Gregorian oracle.',
            'DESIGN.md#c03', 'years 1970-2099 (quick) / 1970-2400 (thorough); integer milliseconds only', ''),
    'C01': ('Bounded model checking of one inductive step of the feature table: from every table satisfying the representation invariant (16 ordered name selections) with symbolic '
            'values, every applicable feature-mutating operation (create / update / delete / bracket assignment / single-observation write / operator objects / expressions with and without =) is '
            'executed on the real Track and compared per path with a dict model on z3 terms; the invariant is re-established, so histories of any length are covered by induction; bounded histories '
            'from the empty table confirm the pre-states are the reachable ones.',
            'DESIGN.md#c01', 'names {a,b,c} + coordinate targets; n = 2 (quick) / 1..3 (thorough); histories of depth 2 / 3', ''),
    'C02': ('Bounded model checking of the algebraic-expression evaluator (string rewriting, makeRPN, RPN stack machine, __applyOperation dispatch, operator classes) on symbolic '
            'feature vectors, coordinates and external scalar: the expression *program* is enumerated (exhaustive depth 1 over the full alphabet, depth 2 over a reduced alphabet, seeded random deeper trees; '
            'two renderings), the data are symbolic, and per path every returned value is proved equal to an independent tree evaluator written on z3 terms; assignment / no-assignment frame conditions checked per path.',
            'DESIGN.md#c02', 'n = 2..3 observations; values in [-8,8] (0 or |v| >= 1/1024), NaN inputs in a subset; literal exponents 2, 3, 0.5 only', ''),
    'C04': ('Bounded model checking of the sequence operations of Track (sort via argsort, chronological insertion by dichotomy, extract, extractSpanTime, +, % n, % pattern, > n, < n, '
            'removeObsList) with symbolic integer instants (ties allowed) and symbolic integer arguments case-split by the solver: the returned observations are compared with the designated '
            'ones per path, time order proved from the path condition.',
            'DESIGN.md#c04', 'sort n <= 4/6; insertion into sorted tracks of size 0..9/17; slicing family n <= 4/6', ''),
    'C05': ('Bounded model checking of linear resampling through Track.resample: temporal mode with symbolic fixes, symbolic integer-millisecond instants and a symbolic step / list of instants / '
            'reference track (per path: exactly the requested instants in (t_first, t_last] are produced, each proved equal to the linear interpolation between its bracketing fixes and stamped to the ms); '
            'spatial mode with symbolic coordinates and sampling distance (sample count, position on the polyline at abscissa k*ds through independent square-root terms, interpolated height and time, '
            'non-decreasing timestamps).',
            'DESIGN.md#c05', 'n = 2..3 fixes; at most 3 requested instants / samples; spatial n = 3 in the thorough tier only', ''),
    'C06': ('Bounded model checking of Dijkstra routing (run_routing_forward / shortest_distance / all_shortest_distances / prepare) with symbolic '
            'edge weights and cut-off on exhaustively enumerated small multigraph topologies, against the minimum over all enumerated permitted walks.',
            'DESIGN.md#c06', 'topologies: 1-3 edges on <=3 nodes exhaustively (thorough: + seeded 4-5 node graphs); weights in [0,1000]', ''),
    'C07': ('Bounded model checking of shortest_path (forward + backward pass, geometry chaining) with symbolic weights on the same enumerated '
            'multigraphs with concrete multi-vertex edge geometries; node list, edge permission, weight sum == minimum and geometry continuity asserted per path; '
            'every query is issued twice on the same network object.',
            'DESIGN.md#c07', 'same bounds as C06; source != target', ''),
    'C08': ('Bounded model checking of the grid index (cell mapping, crossed-cell enumeration with the straddle test, registration, point / segment / track / neighbourhood queries, '
            'ground-distance conversion) on catalogue grids with a symbolic feature, query and distance anywhere in the closed extent: registration and segment queries are proved complete with a free curve '
            'parameter t in the negated query (no cell containing S(t) is missed), point queries proved to read the containing cell, neighbourhood queries proved to return the cell of every point within d.',
            'DESIGN.md#c08', 'grids: 3x2 unit cells margin 0, 4x2 cells of 0.5x4 (quick) + 4x4 of 2x1 with margin, non-dividing resolution, single cell (thorough); default resolution for point queries in corner windows', ''),
    'C09': ('Bounded model checking of HMM.estimate (Viterbi forward recursion, back-pointers, argmin reconstruction) on fully symbolic time-dependent observation / transition '
            'tables with per-epoch candidate counts: on every path the decoded sequence is proved optimal against all enumerated candidate sequences and hmm_cost at the last epoch equal to the optimum; '
            'likelihood mode (incl. exact zeros) with math.log as a monotone uninterpreted function, linked to the log-form run of the same model.',
            'DESIGN.md#c09', 'T <= 3 epochs, S <= 2 (+ (2,3,2)) quick; T <= 5 with S = 2, T = 3 with S <= 3 thorough; costs in [-100,0]', ''),
    'C10': ('Bounded model checking of map-matching on catalogue networks with a symbolic observed position: candidate generation (spatial-index neighbourhood, projection on the edge geometry, '
            'radius filter, distances to the end nodes) is executed for real with the decoder cut out, and every candidate on every path is proved to name an existing edge, to lie on its polyline, '
            'within the search radius, with end-node distances adding up to the edge length; the unmatched flag is checked; selection jobs run the real HMM and prove the inferred state is one of the '
            'candidates; observations, positions and timestamps are unchanged. A fix exactly on the line of a vertical edge is a recorded known finding.',
            'DESIGN.md#c10', 'networks L (horizontal/vertical) and tri (oblique) (quick) + bend (3-vertex edge), index resolutions (5,1) / (2,2), radii 2, 5.5, 50; one symbolic fix', ''),
    'C11': ('Bounded model checking of split() over every marker vector (one path per vector, markers symbolic 0/1) and of segmentation() over symbolic '
            'real-or-NaN feature values and thresholds in both comparison modes, including a second run into the same output feature.',
            'DESIGN.md#c11', 'split: n <= 9 (quick) / 13 (thorough); segmentation: n <= 2/3 observations, <= 3 tested features', ''),
    'C12': ('Bounded model checking of the interval dynamic programme optimalPartition (and its wiring through optimalSegmentation) on a fully symbolic '
            'cost matrix: on every path the returned partition is proved optimal against all 2^(N-2) enumerated partitions, for both directions.',
            'DESIGN.md#c12', 'N <= 5 candidates fully explored (thorough: N = 6 under budget); costs in [0,100]', ''),
    'C13': ('Bounded model checking of the write-then-read glue with a token (contract) model of number formatting and parsing: symbolic coordinates and timestamp fields are written by the real '
            'writers to real files and read back by the real readers; format(<symbolic>, spec) yields an opaque token tied to a fresh symbol within half a unit of the precision parsed from the spec '
            'actually used, and float() / int() in the readers map tokens back. Per path the solver proves each value routed to the right field within the demanded precision and the timestamp equal '
            'field by field, for every CSV column layout x separator x coordinate system, GPX (trk), WKT text and a network CSV with the three orientations and multi-vertex geometries.',
            'DESIGN.md#c13', "Python's own number formatting / parsing, rendered widths, KML and analytical-feature columns are outside the claim; blank separator with a timestamp column and the GPX elevation of ENU tracks are recorded known findings", ''),
    'C14': ('PARTIAL (algebraic sub-claims only). Bounded model checking of the frame rotations and of the forward ellipsoid formula through the real methods with sin / cos / atan2 as uninterpreted, '
            'memoised functions plus the circle identity: ECEF -> ENU(base) -> ECEF(base) and ENU -> ECEF(base) -> ENU(base) proved to be the identity for every point and every (ECEF or geographic) base; '
            'the base maps to (0,0,0); GeoCoords.toECEFCoords proved equal to the closed-form WGS84 expressions for all lon / lat / h; Track.toENUCoords applies the point conversion to every observation '
            'and records its base. NOT decided: accuracy (1e-9 degree / 1 mm) of the closed-form ECEF -> geographic inverse and of the Lambert-93 iteration, hence the geographic round trips.',
            'DESIGN.md#c14', 'sub-claims about the accuracy of ECEFCoords.toGeoCoords and of the Lambert-93 projection are not applicable to this technique (transcendental floating-point error analysis) and are outside the claim', ''),
    'C15': ('Bounded model checking of Filter.execute (through operate(FILTER) on a feature and filter_seq on a coordinate) on symbolic signals with enumerated isolated-NaN patterns: '
            'window 3 with three symbolic positive weights, catalogue windows 5 and 7, kernel objects with both boundary settings; per index the output is proved to satisfy '
            'out * sum(w_J) == sum(w_J * x_J) over the in-range non-NaN window positions, boundary values returned unchanged, constants fixed; Kernel.toSlidingWindow of seven built-in kernels with a '
            'symbolic width proved odd, symmetric and summing to 1 (exp uninterpreted, congruent, positive).',
            'DESIGN.md#c15', 'signal length 3..4 (quick) / 3..6 (thorough) for window 3; catalogue windows up to 7; kernel width in [1, 2.5]', ''),
    'C16': ('Bounded model checking of simplification, compositionally: distance_to_segment proved to be the true point-segment distance for catalogue chords (incl. the zero-length chord) under '
            'symbolic translation and query point; Douglas-Peucker recursion run with every distance a free symbol and a symbolic tolerance (subsequence, ends kept, every dropped fix closer than the '
            'tolerance to the chord of its kept neighbours, proved per path); end-to-end link on 3 fixes; Visvalingam on symbolic coordinates incl. closed loops (subsequence, ends kept, no exception).',
            'DESIGN.md#c16', 'DP structure n <= 5 (quick) / 6 (thorough); Visvalingam n <= 4 / 5; 8 catalogue chords', ''),
    'C17': ('Bounded model checking of computeAbsCurv (ds feature, Integrator, temporary removal) and estimate_speed (centred / one-sided differences, zero-duration guard) on symbolic '
            'coordinates and symbolic integer-millisecond instants with ties: per path the abscissa increments and the speeds are proved equal to independent square-root terms over dx^2+dy^2 '
            '(lemma chaining), the frame conditions (positions, timestamps, other features, temporary ds) checked, and a second computation compared.',
            'DESIGN.md#c17', 'abs_curv n <= 3 (quick) / 5 (thorough); speed n <= 3 / 4; coordinates in [-100,100]', ''),
    'C18': ('Bounded model checking of DTW / fast DTW / discrete Frechet matching on symbolic heights (dim=1) and on a free symbolic cost matrix '
            '(dim=<function>): on every path the score is proved equal to the minimum over all enumerated monotone couplings and the returned matching is '
            'proved to be such a coupling accumulating exactly the score.',
            'DESIGN.md#c18', 'sizes <= 3x3 (FDTW n1*n2 <= 6 in quick), p in {1, inf} everywhere, p = 2 on small free matrices', ''),
    'C19': ('Bounded model checking of summarize() (raster geometry, getCell with its border cases, scatter of values, cell operators) on catalogue grids with symbolic observation positions anywhere '
            'in the closed bounding box and symbolic real-or-NaN values: per path every observation is proved to lie in the closed footprint of its assigned cell, and every cell value of count / sum / '
            'min / max / mean / median is proved equal to that aggregate over exactly the non-NaN values located there (median by rank constraints); conservation of the counts follows.',
            'DESIGN.md#c19', 'grids 3x2 and 2x2 partial (quick) + margin and finer grids (thorough); k = 2 / 3 symbolic observations plus 2 frame observations', ''),
    'C20': ('Bounded model checking of proj_segment / proj_polyligne / mapOnTrack with the segment directions taken from a catalogue, a symbolic translation and a symbolic query point '
            '(also constrained onto the segment and onto its ends): per path the returned point is proved to lie on the indexed segment, the distance to equal the point distance, and no point '
            'S(mu), mu in [0,1] (free variable of the negated query) of any leg to be closer. Vertical segments are a recorded known finding.',
            'DESIGN.md#c20', '10 catalogue directions, 8 catalogue polylines (quick: 5), coordinates in [-100,100], tolerance 1e-9', ''),
}

NOT_YET = {}

ALL = ['C%02d' % i for i in range(1, 21)]


def main():
    checks = []
    for pid in ALL:
        if pid not in CLAIMED:
            continue
        text, ref, note, tech = CLAIMED[pid]
        checks.append(dict(
            property_id=pid,
            quick_cmd='./run_check.sh %s --tier quick' % pid,
            thorough_cmd='./run_check.sh %s --tier thorough' % pid,
            evidence_file='/verif/evidence/%s.json' % pid,
            replay_cmd_template='./run_check.sh %s --replay {path}' % pid,
            engine='symx',
            level_claimed=dict(category='model_checking', text=text, design_ref=ref),
            level_note=(note + '; ' if note else '') + NOTE,
            technique=TECH + (('; ' + tech) if tech else ''),
        ))
    na = [dict(property_id=pid, reason=NOT_YET.get(pid, 'check not built yet in this round (planned: symx harness, see DESIGN.md section 5); nothing is claimed'))
          for pid in ALL if pid not in CLAIMED]
    man = dict(
        version=1,
        setup_cmd='./bootstrap.sh',
        hooks=dict(guard='TRACKLIB_VERIF', enable='none needed: all instrumentation is run-time rebinding of module globals inside the harness process; /repo is imported unmodified',
                   baseline_off_cmd='cd /repo && /venv/bin/python -m pytest -ra -q -p no:cacheprovider --timeout=900 --continue-on-collection-errors',
                   source_commits=[], add_only=True),
        engines=[dict(name='symx', path='/verif/symx', serves_properties=sorted(CLAIMED),
                      kind_free_text='dynamic symbolic execution of the real Python code on z3 proxies (z3 4.16/5.1 wheel), per-path SMT queries, counterexample replay on the unpatched code')],
        checks=checks,
        notes='Solver-based checking of the real code. Exit codes: 0 held on everything explored, 1 replayed violation (VIOLATION line), 2 harness error. Known findings: /verif/known_findings.json.',
        not_applicable=na,
    )
    json.dump(man, open(os.path.join(HERE, 'MANIFEST.json'), 'w'), indent=1)
    try:
        import jsonschema
        jsonschema.validate(man, json.load(open('/root/.vp/MANIFEST.schema.json')))
        print('MANIFEST.json valid: %d checks, %d not applicable' % (len(checks), len(na)))
    except ImportError:
        print('written (jsonschema not available to validate)')


if __name__ == '__main__':
    main()
