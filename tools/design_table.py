#!/usr/bin/env python3
"""Rewrites the numeric column of the status table in DESIGN.md section 9 from the quick-tier evidence files (evidence/<id>.json)."""
import json, re, os
HERE = os.path.dirname(os.path.dirname(os.path.abspath(__file__)))
p = os.path.join(HERE, 'DESIGN.md')
s = open(p).read()


def k(n):
    return '%.1fk' % (n / 1000.0) if n >= 10000 else ('%.1fk' % (n / 1000.0) if n >= 1000 else str(n))


def cell(cid):
    e = json.load(open(os.path.join(HERE, 'evidence', cid + '.json')))
    c = e['coverage']
    if e['tier'] != 'quick':
        return None
    return '%s / %s / %s / %d / %d s' % (k(c['jobs']), k(c['evaluations']), k(c['assertions_proved']), c['paths_inconclusive'], round(e['wall_s']))


out = []
for line in s.split('\n'):
    m = re.match(r'^\| (C\d\d) \| ([^|]*) \|(.*)$', line)
    if m and ' / ' in m.group(2) + 'x / y' and re.search(r'\d s$|round 1', m.group(2).strip()):
        v = cell(m.group(1))
        if v:
            line = '| %s | %s |%s' % (m.group(1), v, m.group(3))
    out.append(line)
open(p, 'w').write('\n'.join(out))
