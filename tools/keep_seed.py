#!/usr/bin/env python3
"""usage: keep_seed.py <Cnn> <variant letter> <agent out dir> <confirmation log> <caught: yes|no|partial> ["needs" text]
Stores a confirmed seeded change as /verif/seeded/<Cnn>-<variant>/ (patch.diff, demo.py, notes.md, meta.json)."""
import sys, os, re, json, shutil
pid, var, src, conf, caught = sys.argv[1:6]
needs = sys.argv[6] if len(sys.argv) > 6 else None
dst = '/verif/seeded/%s-%s' % (pid, var)
os.makedirs(dst, exist_ok=True)
shutil.copy(os.path.join(src, 'patch.diff'), dst)
demo = open(os.path.join(src, 'demo.py')).read()
# the seeding agent's demo may pin its own scratch worktree path: make it follow $SEED_WT (default: current directory)
demo2 = re.sub(r"""(['"])/tmp/seed/wt-C\d\d(/?)""", lambda m: "__import__('os').environ.get('SEED_WT', __import__('os').getcwd()) + " + m.group(1) + m.group(2), demo)
open(os.path.join(dst, 'demo.py'), 'w').write(demo2)
notes = os.path.join(src, 'notes.md')
if os.path.exists(notes):
    shutil.copy(notes, dst)
log = open(conf).read() if os.path.exists(conf) else ''
lines = [l for l in log.splitlines() if not l.startswith('  inconclusive')]
viol = [l for l in lines if l.startswith('VIOLATION') or l.startswith('  what:')]
if needs is None and os.path.exists(notes):
    txt = open(notes).read()
    m = re.search(r'(?is)(needs?|manifest)[^\n]*\n(.{0,600})', txt)
    needs = (m.group(0)[:600] if m else txt[:600])
meta = dict(property=pid, variant=var, breaks=pid,
            needs_to_manifest=needs,
            origin='written by an independent sub-agent that was given only the text of the property and a scratch git worktree of /repo (nothing from /verif)',
            confirmed_by=['tools/confirm_seed.sh %s <dir> --tier quick   (scratch worktree of /repo HEAD; patch applied there, never in /repo)' % pid,
                          'demo.py on the unchanged tree -> exit 0; with the patch -> exit 1',
                          'pinned test suite with the patch: 243 passed, the same 11 network/data failures as the baseline',
                          'registered check run against the patched tree (VERIF_REPO=<worktree>)'],
            confirmation_log=[l[:400] for l in lines][:14],
            caught_by_check=caught, check_violation_lines=[l[:300] for l in viol][:6])
json.dump(meta, open(os.path.join(dst, 'meta.json'), 'w'), indent=1)
print('kept', dst, 'caught=', caught)
