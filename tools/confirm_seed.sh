#!/bin/sh
# usage: tools/confirm_seed.sh <Cnn> <dir with patch.diff + demo.py> [--notests] [check args...]
# Confirms a seeded change independently in a scratch worktree of /repo's HEAD (never /repo itself):
#   1. demo passes on the unchanged tree      2. patch applies; demo fails with it
#   3. the pinned test-suite still has its 243 passes   4. the registered check is run against the patched tree
ID="$1"; DIR="$(cd "$2" && pwd)"; shift 2
NOTESTS=0; if [ "$1" = "--notests" ]; then NOTESTS=1; shift; fi
DEMOONLY=0; if [ "$1" = "--demoonly" ]; then DEMOONLY=1; NOTESTS=1; shift; fi
# SEED_WT: create the scratch worktree at this path (demos written by the seeding agents may assert their original worktree path)
if [ -n "$SEED_WT" ]; then WT="$SEED_WT"; else WT="$(mktemp -d /tmp/verif-seed-XXXXXX)"; fi
git -C /repo worktree add -q --detach "$WT" HEAD || exit 3
run_demo() { (cd "$WT" && PYTHONPATH="$WT" MPLBACKEND=Agg timeout 600 /venv/bin/python -W ignore "$DIR/demo.py" >"$WT.demo.out" 2>&1; echo $?); }
D0=$(run_demo)
echo "demo on unchanged tree: exit=$D0"
if ! git -C "$WT" apply "$DIR/patch.diff"; then echo "PATCH DOES NOT APPLY"; git -C /repo worktree remove --force "$WT"; exit 3; fi
D1=$(run_demo)
echo "demo with the change:   exit=$D1   ($(tail -1 "$WT.demo.out" | cut -c1-200))"
if [ $NOTESTS = 0 ]; then
  (cd "$WT" && PYTHONPATH="$WT" /venv/bin/python -m pytest -q -p no:cacheprovider --timeout=900 --continue-on-collection-errors test 2>&1 | tail -1)
fi
if [ $DEMOONLY = 1 ]; then git -C /repo worktree remove --force "$WT"; rm -f "$WT.demo.out"; exit 0; fi
VERIF_REPO="$WT" VERIF_EVIDENCE_DIR="$WT/.evidence" "$(dirname "$0")/../run_check.sh" "$ID" "$@" 2>&1 | grep -v "^  inconclusive" | tail -6
RC=$?
git -C /repo worktree remove --force "$WT"
rm -f "$WT.demo.out"
