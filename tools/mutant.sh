#!/bin/sh
# usage: tools/mutant.sh <Cnn> <patch.diff> [run_check args...]
# applies the patch to a scratch worktree of /repo's HEAD (never to /repo), runs the check on it, removes the worktree
ID="$1"; PATCH="$2"; shift 2
WT="$(mktemp -d /tmp/verif-mut-XXXXXX)"
git -C /repo worktree add -q --detach "$WT" HEAD || exit 3
if ! git -C "$WT" apply "$PATCH"; then echo "PATCH DOES NOT APPLY"; git -C /repo worktree remove --force "$WT"; exit 3; fi
VERIF_REPO="$WT" VERIF_EVIDENCE_DIR="$WT/.evidence" "$(dirname "$0")/../run_check.sh" "$ID" "$@"
RC=$?
git -C /repo worktree remove --force "$WT"
echo "mutant exit=$RC"
exit $RC
