#!/usr/bin/env python3
"""prints the prompt given to an independent sub-agent that seeds a property-breaking change (gets only the property text)"""
import json, sys
pid = sys.argv[1]
wt = sys.argv[2]
out = sys.argv[3]
round2 = len(sys.argv) > 4 and sys.argv[4] == 'round2'
round3 = len(sys.argv) > 4 and sys.argv[4] == 'round3'
round4 = len(sys.argv) > 4 and sys.argv[4] == 'round4'
round5 = len(sys.argv) > 4 and sys.argv[4] == 'round5'
p = None
for l in open('/verif/properties.jsonl'):
    d = json.loads(l)
    if d['id'] == pid:
        p = d
an = p['anchors']
print(f"""You are helping test a verification effort for the open-source pure-Python GPS trajectory library `tracklib` (umrlastig/tracklib).
You have your own scratch git worktree of the repository at {wt} (work ONLY there; never touch /repo or /verif, and do not read anything under /verif).

Here is a semantic property that the library is supposed to satisfy:

  Title: {p['title']}
  Statement: {p['statement']}
  Quantified over: {p['quantifier']['text']}
  Why the existing tests cannot settle it: {p['why_tests_cant']}
  Code anchors: files {an['files']}; mechanisms: {json.dumps(an['mechanism'])}; observable at: {an['observe_at']}

YOUR TASK: produce TWO different, independent, realistic source changes to tracklib (each one a small bug a developer could plausibly introduce during a refactor/optimisation/"clean-up") such that, for each change:
  (a) the library still imports and the existing test suite still passes exactly as before. Run it from the worktree with
        cd {wt} && PYTHONPATH={wt} /venv/bin/python -m pytest -q -p no:cacheprovider --timeout=900 --continue-on-collection-errors test 2>&1 | tail -15
      NOTE: on the unchanged tree 243 tests pass and 11 tests fail because they need the network or missing data (testMapOn, testMapOnRaster, test_read_wfs, test_read_asc, test_read_ign_mnt, test_read_metadata_mnt, testWriteTwoTrackToManyGpx0AF/1AF/2AF, testCircleTrigo, testCircles). The same 243 must still pass with your change. First verify `cd {wt} && PYTHONPATH={wt} /venv/bin/python -W ignore -c "import tracklib; print(tracklib.__file__)"` prints a path inside {wt}.
  (b) the change BREAKS the property above, but only in a way that needs something specific to manifest: an unusual input (a tie, a border value, a zero, a particular size, a particular date...), a multi-step sequence of operations, or two cooperating code sites that each look fine alone. Do NOT make changes that ordinary use would expose at once (e.g. always returning a wrong value).
  (c) you provide a small demonstration program (plain python script, exit code 1 + message when the property is violated, exit 0 otherwise) that FAILS with your change applied and PASSES on the unchanged tree. The demo must import tracklib from the worktree (run as `cd {wt} && PYTHONPATH={wt} /venv/bin/python -W ignore demo.py`).

The two changes should be in different places / of different nature (e.g. one about a comparison or boundary, one about a different sub-claim of the statement). Keep each change to a few lines.""" + ("""

This is a SECOND round: an earlier round already produced the most obvious candidates (a flipped comparison or an off-by-one in the central loop of the main function, a dropped special case). Look elsewhere: helper functions and wrappers the main function relies on, argument / default handling, less-travelled branches and modes named in the statement, sub-claims of the statement that are easy to forget (frame conditions such as 'nothing else changes', symmetry, 'the same when called twice', behaviour at size 0/1/2, ties, NaN, borders), or a change split over two cooperating sites. Each change must still be something a developer could plausibly write.""" if round2 else "") + ("""

This is a THIRD round: two earlier rounds already produced the obvious candidates and a set of helper / frame-condition / call-twice candidates. This time aim for changes whose manifestation depends on SCALE or CONFIGURATION rather than on a single special value: they only show for inputs beyond toy sizes (for example tracks, networks, windows, grids, models or expressions with at least 5-8 elements, several levels of nesting or recursion, many repeated operations), for particular parameter values or modes of the public API (optional arguments, alternative entry points named under 'observable at', non-default settings), or for particular combinations of two inputs (relative sizes, relative order). Small inputs of size 1-4 with default parameters should behave exactly as before. Each change must still be something a developer could plausibly write (a cache, a fast path, a chunked loop, a limit, an early exit, a default).""" if round3 else "") + ("""

This is a FOURTH round: earlier rounds already produced (1) the obvious candidates in the central loop, (2) helper / frame-condition / call-twice candidates and (3) fast paths and limits that only show at scale or in a non-default mode. This time aim for changes that manifest through the KIND of value or object that is passed, or through ALIASING and leftover STATE, rather than through a special number or a size: for example arguments given as numpy scalars / Python ints instead of floats (or the reverse), negative zero, lists vs tuples vs generators, ids given as strings vs integers, a Track where a TrackCollection is accepted (or the reverse), an object passed twice (the same track as both arguments, the same list reused), a result that shares mutable objects with its input so that a later modification of one silently changes the other, module-level or class-level state left modified after an exception or after an early return, caches keyed by something that can be reused (id(), name, size), default arguments evaluated once. Plain float inputs given once to the documented main entry point should behave exactly as before. Each change must still be something a developer could plausibly write.""" if round4 else "") + ("""

This is a FIFTH round, and a SHORT one: deliver ONLY change A (ignore every mention of a change B), and be done within about 12 minutes - run the full test suite at most twice. Earlier rounds already produced (1) obvious candidates in the central loop, (2) helper / frame-condition / call-twice candidates, (3) fast paths that only show at scale or in a non-default mode, (4) value kinds, aliasing and leftover state. This time aim for a change that needs a COMBINATION to manifest: two conditions that must hold together (for example a degenerate geometry AND a particular option; a tie AND a particular position of the tie - first, last, next to a NaN; a value exactly on a border AND a negative or descending coordinate; a repeated timestamp AND a size parity), or a sequence of two different public operations named in the statement applied one after the other (the second one sees something the first left: a feature column, a sorted flag, an index, a changed bounding box). Either condition alone, and either operation alone, should behave exactly as before. The change must still be something a developer could plausibly write.""" if round5 else "") + f"""

DELIVERABLES (write them under {out}/, create the directory):
  {out}/A/patch.diff   (output of `git -C {wt} diff` for change A alone, relative to the unchanged HEAD)
  {out}/A/demo.py
  {out}/A/notes.md     (what the change is, which sub-claim of the property it breaks, what precisely is needed for it to manifest, the commands you ran and their results: test-suite tail with change, demo with change (fails), demo without change (passes))
  and the same under {out}/B/ for change B.
When finished with each change, restore the worktree (`git -C {wt} checkout -- .`) so that the patches are independent; at the very end leave the worktree clean (`git -C {wt} status --short` empty). Do not commit anything. NEVER use `git stash` (the stash is shared with other worktrees of the same repository; use `git diff > file` and `git checkout -- .` instead). Do not hard-code the worktree path inside demo.py (it will be re-run from another checkout with the same command line, cwd = checkout root and PYTHONPATH = checkout root). Do not install anything (no network). Running the full test suite takes ~40-60 s.
Reply with a short summary of the two changes and confirmation of (a)-(c) for each.""")
