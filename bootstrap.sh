#!/bin/sh
# Idempotent, lock-protected set-up of /verif/.venv: a Python that sees tracklib's
# own dependencies (/venv site-packages), /repo's working tree (or $VERIF_REPO),
# and the solver wheels from the offline wheelhouse. No network is used.
set -e
HERE="$(cd "$(dirname "$0")" && pwd)"
VENV="$HERE/.venv"
STAMP="$VENV/.ready-v2"
if [ -f "$STAMP" ]; then exit 0; fi
exec 9>"$HERE/.bootstrap.lock"
flock 9
if [ -f "$STAMP" ]; then exit 0; fi
rm -rf "$VENV"
/venv/bin/python -m venv "$VENV"
SP="$VENV/lib/python3.12/site-packages"
# tracklib itself is NOT put on the path here: run_check.py inserts VERIF_REPO
# (default /repo) at run time so that scratch copies can be checked too.
printf '%s\n' "import site; site.addsitedir('/venv/lib/python3.12/site-packages')" > "$SP/_overlay.pth"
PIP_NO_INDEX=1 "$VENV/bin/pip" install -q --no-index --find-links /opt/veriftools/wheels z3-solver cvc5 crosshair-tool jsonschema >/dev/null 2>&1 || \
PIP_NO_INDEX=1 "$VENV/bin/pip" install -q --no-index --find-links /opt/veriftools/wheels z3-solver cvc5 crosshair-tool
"$VENV/bin/python" -c "import z3, numpy; print('verif venv ready: z3', z3.get_version_string())"
touch "$STAMP"
