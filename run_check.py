"""entry point: run_check.py <property id> [--tier quick|thorough] [--replay file]"""
import os, sys, importlib, warnings
warnings.filterwarnings('ignore')
HERE = os.path.dirname(os.path.abspath(__file__))
REPO = os.environ.get('VERIF_REPO', '/repo')
sys.path.insert(0, HERE)
sys.path.insert(0, REPO)   # the working tree under test is imported, never copied
sys.setrecursionlimit(20000)

def main():
    if len(sys.argv) < 2:
        print('usage: run_check.py Cnn [--tier quick|thorough] [--replay file]'); return 2
    pid = sys.argv[1].upper()
    import tracklib  # noqa: F401  (import once in the parent; workers are forked)
    assert os.path.abspath(tracklib.__file__).startswith(os.path.abspath(REPO)), tracklib.__file__
    mod = importlib.import_module('checks.%s' % pid.lower())
    from symx import runner
    return runner.main(mod.CHECK, sys.argv[2:])

if __name__ == '__main__':
    sys.exit(main())
