"""PEP-316 contracts over the real tracklib functions, analysed by CrossHair (second, independent symbolic engine;
thorough tier only).  A counterexample reported here that symx did not report means the two engines disagree."""
from typing import List
from tracklib.core import Track, Obs, ENUCoords, ObsTime
from tracklib.algo.segmentation import split


def _track(markers: List[int]) -> Track:
    tr = Track([Obs(ENUCoords(float(i), 0.0, 0.0), ObsTime(1970, 1, 1, 0, 0, i, 0)) for i in range(len(markers))])
    tr.createAnalyticalFeature('m', list(markers))
    return tr


def c11_split_partitions(markers: List[int]) -> bool:
    """
    pre: 1 <= len(markers) <= 4
    pre: all(m in (0, 1) for m in markers)
    post: _
    """
    tr = _track(markers)
    before = [tr.getObs(i) for i in range(tr.size())]
    coll = split(tr, 'm')
    pieces = coll.getTracks()
    if not any(m == 1 for m in markers):
        return len(pieces) == 0
    cat = []
    for p in pieces:
        cat += [p.getObs(i) for i in range(p.size())]
    if len(cat) != len(before) or any(a is not b for a, b in zip(cat, before)):
        return False
    pos = 0
    for k, p in enumerate(pieces):
        pos += p.size()
        if k < len(pieces) - 1 and (p.size() == 0 or markers[pos - 1] != 1):
            return False
    return True


def c04_insert_keeps_sorted(secs: List[int], new: int) -> bool:
    """
    pre: 0 <= len(secs) <= 5
    pre: all(0 <= s <= 59 for s in secs)
    pre: all(a <= b for a, b in zip(secs, secs[1:]))
    pre: 0 <= new <= 59
    post: _
    """
    tr = Track([Obs(ENUCoords(float(i), 0.0, 0.0), ObsTime(1970, 1, 1, 0, 0, s, 0)) for i, s in enumerate(secs)])
    o = Obs(ENUCoords(-1.0, 0.0, 0.0), ObsTime(1970, 1, 1, 0, 0, new, 0))
    tr.insertObs(o)
    ts = [tr.getObs(i).timestamp.sec for i in range(tr.size())]
    return tr.size() == len(secs) + 1 and all(a <= b for a, b in zip(ts, ts[1:])) and sum(1 for i in range(tr.size()) if tr.getObs(i) is o) == 1


def c03_compare_orders_like_seconds(d1: int, s1: int, d2: int, s2: int) -> bool:
    """
    pre: 1 <= d1 <= 28 and 1 <= d2 <= 28
    pre: 0 <= s1 <= 59 and 0 <= s2 <= 59
    post: _
    """
    a = ObsTime(2020, 2, d1, 23, 59, s1, 0)
    b = ObsTime(2020, 2, d2, 23, 59, s2, 0)
    ka, kb = d1 * 86400 + s1, d2 * 86400 + s2
    return (a < b) == (ka < kb) and (a > b) == (ka > kb) and (a == b) == (ka == kb) and (a <= b) == (ka <= kb) and (a >= b) == (ka >= kb)


def c04_trims_select_designated(n: int, a: int) -> bool:
    """
    pre: 0 <= n <= 4
    pre: 0 <= a <= n + 1
    post: _
    """
    tr = Track([Obs(ENUCoords(float(i), 0.0, 0.0), ObsTime(1970, 1, 1, 0, 0, i, 0)) for i in range(n)])
    ids = lambda t: [int(t.getObs(i).position.getX()) for i in range(t.size())]
    ok = ids(tr > a) == list(range(min(a, n), n)) and ids(tr < a) == list(range(0, max(0, n - a)))
    if a >= 1:
        ok = ok and ids(tr % a) == list(range(0, n, a))
    return ok and ids(tr) == list(range(n))
